#!/bin/bash
# usage: verify_seed.sh <seed_out_dir> <dest_name>    (e.g. /tmp/seed/C04/_out/a C04a)
# Confirms in a scratch worktree of /repo HEAD: patch applies, library test suite passes with it,
# demo fails with it, demo passes without it.  On success stores the seed under /verif/seeded/<dest_name>/.
set -u
SRC=$1; NAME=$2
WT=/tmp/verify/wt
mkdir -p /tmp/verify
if [ ! -d $WT ]; then git -C /repo worktree add -q --detach $WT HEAD || exit 2; fi
cd $WT && git checkout -q --detach $(git -C /repo rev-parse HEAD) && git checkout -q -- . && rm -rf tests
LOG=/tmp/verify/$NAME.log; : > $LOG
if ! git apply --check $SRC/patch.diff 2>>$LOG; then echo "$NAME: PATCH DOES NOT APPLY"; exit 1; fi
git apply $SRC/patch.diff
sout=$(cargo test --offline --no-fail-fast 2>>$LOG)
suite=$(echo "$sout" | grep -E "^test result" | tr '\n' ' ')
# failing tests by name; the baseline excludes the flaky ops::delay::tests::shared_smoke (see /root/.vp/BASELINE.json)
fails=$(echo "$sout" | grep -E "^test [A-Za-z0-9_:]+ \.\.\. FAILED" | grep -v "delay::tests::shared_smoke" | wc -l)
echo "$sout" | grep -E "^test .* FAILED" >> $LOG
mkdir -p tests && cp $SRC/demo.rs tests/demo.rs
with=$(cargo test --offline --test demo 2>>$LOG | grep -E "^test result" | tr '\n' ' ')
git checkout -q -- src
without=$(cargo test --offline --test demo 2>>$LOG | grep -E "^test result" | tr '\n' ' ')
rm -rf tests
wf=$(echo "$with" | grep -oE "[0-9]+ failed" | awk '{s+=$1} END{print s+0}')
wof=$(echo "$without" | grep -oE "[0-9]+ failed" | awk '{s+=$1} END{print s+0}')
wop=$(echo "$without" | grep -oE "[0-9]+ passed" | awk '{s+=$1} END{print s+0}')
echo "$NAME: suite_failed=$fails demo_with_failed=$wf demo_without_failed=$wof demo_without_passed=$wop"
if [ "$fails" = 0 ] && [ "$wf" -gt 0 ] && [ "$wof" = 0 ] && [ "$wop" -gt 0 ]; then
  D=/verif/seeded/$NAME; mkdir -p $D; cp $SRC/patch.diff $SRC/demo.rs $D/
  python3 - "$SRC/meta.json" "$D/meta.json" "$suite" "$with" "$without" <<'PY'
import json,sys
try: m=json.load(open(sys.argv[1]))
except Exception as e: m={"note":"agent meta unreadable: %s"%e}
m["confirmed_by_me"]={"worktree":"/tmp/verify/wt at /repo HEAD","suite_with_change":sys.argv[3].strip(),"demo_with_change":sys.argv[4].strip(),"demo_without_change":sys.argv[5].strip()}
json.dump(m,open(sys.argv[2],"w"),indent=1)
PY
  echo "$NAME: KEPT"
else
  echo "$NAME: REJECTED (see $LOG)"
fi
