#!/usr/bin/env python3
"""Mutation analysis of the checks (validation of the machinery, not part of any check).

usage: tools/mutate.py <sample-size> <seed> [file-substring]

Single-token mutants of the rxRust sources the properties are anchored in (properties.jsonl: anchors.files) are made in
a scratch worktree (/tmp/mut/wt), never in /repo.  A mutant that still compiles and still passes the library's own
suite (lib tests, then doc tests) is handed to the quick checks of the properties anchored in that file (plus C01 and
C18, which run the whole operator catalogue), built from a scratch copy of the harness that depends on the worktree.
Result per mutant: stillborn | killed-by-suite | killed-by-check <id> <signature> | inconclusive | survived.
Results are appended to /verif/mutation/results.jsonl (a re-run skips what is already there); the scratch directories
are removed at the end (keep: MUT_KEEP=1).
"""
import json, os, random, re, shutil, subprocess, sys, time

N = int(sys.argv[1]); SEED = int(sys.argv[2]); FILT = sys.argv[3] if len(sys.argv) > 3 else ""
ROUND2 = bool(os.environ.get("MUT_ROUND2"))  # only the second-round operators are sampled then
ROOT = "/tmp/mut"; WT = ROOT + "/wt"; H = ROOT + "/harness"; OUT = ROOT + "/out"
ENV = dict(os.environ, CARGO_NET_OFFLINE="true")

def sh(cmd, cwd=None, timeout=None, env=None):
    try:
        r = subprocess.run(cmd, cwd=cwd, shell=True, capture_output=True, text=True, timeout=timeout, env=env or ENV)
        return r.returncode, r.stdout + r.stderr
    except subprocess.TimeoutExpired as e:
        subprocess.run("pkill -f /tmp/mut/ || true", shell=True)
        return 124, "timeout"

# ---------------------------------------------------------------- sites
anch = {}
for l in open("/verif/properties.jsonl"):
    j = json.loads(l)
    for f in j["anchors"]["files"]:
        anch.setdefault(f, set()).add(j["id"])

OPS = [
    (r" == ", " != "), (r" != ", " == "), (r" <= ", " < "), (r" >= ", " > "), (r" < ", " <= "), (r" > ", " >= "),
    (r" && ", " || "), (r" \|\| ", " && "),
    (r"\+ 1\b", "+ 0"), (r"- 1\b", "- 0"), (r"\+= 1\b", "+= 2"), (r"-= 1\b", "-= 2"),
    (r"\btrue\b", "false"), (r"\bfalse\b", "true"),
    (r"if !", "if "), (r"\.is_none\(\)", ".is_some()"), (r"\.is_some\(\)", ".is_none()"),
    (r"\.pop_front\(\)", ".pop_back()"), (r"\.push_back\(", ".push_front("),
]
# statement deletion: a line that is one method call on self / a local and nothing else
SDL = re.compile(r"^\s*(self|[a-z_]+)(\.[a-z_0-9]+(\(\))?)*\.(unsubscribe|complete|take|next|error|clear|wake|push|append|retain|register)\(.*\);\s*$")

def sites():
    out = []
    for f in sorted(anch):
        if FILT and FILT not in f:
            continue
        p = os.path.join("/repo", f)
        if not os.path.exists(p):
            continue
        lines = open(p).read().split("\n")
        for i, line in enumerate(lines):
            s = line.strip()
            if s.startswith("#[cfg(test)]") or s.startswith("mod test"):
                break
            if s.startswith("//") or s.startswith("#[") or s.startswith("use ") or "///" in line:
                continue
            code = line.split("//")[0]
            for pat, rep in OPS:
                for m in re.finditer(pat, code):
                    new = code[: m.start()] + re.sub(pat, rep, code[m.start():], count=1)
                    out.append((f, i, line, new + line[len(code):], f"{pat.strip()} -> {rep.strip()}"))
            if SDL.match(code):
                out.append((f, i, line, re.sub(r"\S.*$", "();", code, count=1), "delete statement"))
            if ROUND2:
                # second round: other statement deletions, constant tweaks, swap of two adjacent statements
                if re.match(r"^\s*(drop\(.*\);|return;|break;)\s*$", code):
                    out.append((f, i, line, re.sub(r"\S.*$", "();", code, count=1), "delete drop/return/break"))
                for pat, rep in [(r"== 0\b", "== 1"), (r"> 0\b", "> 1"), (r"!= 0\b", "!= 1"), (r"\.unwrap_or\(true\)", ".unwrap_or(false)"), (r"\.unwrap_or\(false\)", ".unwrap_or(true)"), (r"\.map_or\(false,", ".map_or(true,"), (r"\.all\(", ".any("), (r"\.any\(", ".all(")]:
                    for m in re.finditer(pat, code):
                        new = code[: m.start()] + re.sub(pat, rep, code[m.start():], count=1)
                        out.append((f, i, line, new + line[len(code):], f"r2 {pat} -> {rep}"))
                nxt = lines[i + 1] if i + 1 < len(lines) else ""
                def simple(l):
                    if l.strip().startswith(("let ", "return", "//", "use ", "break", "continue", "pub ", "mod ", "type ", "impl", "fn ")):
                        return None
                    return re.match(r"^(\s*)[a-z_][A-Za-z0-9_\.\(\)\*&:<>, \[\]!=+\-\|\'\"]*;\s*$", l)
                a, b = simple(line), simple(nxt)
                if a and b and a.group(1) == b.group(1) and line.strip() != nxt.strip():
                    out.append((f, i, line, nxt + "\n" + line, "swap with next statement"))
    return out

# ---------------------------------------------------------------- setup
def setup():
    shutil.rmtree(ROOT, ignore_errors=True)
    os.makedirs(OUT)
    subprocess.run("git -C /repo worktree prune", shell=True)
    rc, o = sh(f"git -C /repo worktree add -q --detach {WT} HEAD")
    assert rc == 0, o
    shutil.copytree("/verif/harness", H, ignore=shutil.ignore_patterns("target", "build.log"))
    t = open(H + "/Cargo.toml").read().replace('path = "/repo"', f'path = "{WT}"')
    assert WT in t
    open(H + "/Cargo.toml", "w").write(t)
    rc, o = sh("cargo build --release --offline -q", cwd=H, timeout=1800)
    assert rc == 0, o[-2000:]
    rc, o = sh("cargo test --offline --lib -q", cwd=WT, timeout=1800)
    print("baseline lib tests rc", rc, flush=True)

def teardown():
    if os.environ.get("MUT_KEEP"):
        return
    subprocess.run(f"git -C /repo worktree remove --force {WT}", shell=True)
    shutil.rmtree(ROOT + "/harness", ignore_errors=True)
    subprocess.run("git -C /repo worktree prune", shell=True)

FLAKY = "delay::tests::shared_smoke"

def suite_passes():
    rc, o = sh("cargo test --offline --lib -q 2>&1", cwd=WT, timeout=150)
    if rc == 124:
        return False, "lib tests hang"
    failed = [l for l in o.split("\n") if re.match(r"^test .* FAILED|^\s+\S+ .*panicked|^    [a-z_:]+$", l)]
    names = re.findall(r"^    ([a-z_:0-9]+)$", o, re.M)
    names = [n for n in names if FLAKY not in n]
    if rc != 0 and names:
        return False, "lib: " + ",".join(names[:3])
    if rc != 0 and not names and "test result: FAILED" in o and FLAKY not in o:
        return False, "lib: failed"
    rc, o = sh("cargo test --offline --doc -q 2>&1", cwd=WT, timeout=900)
    if rc != 0:
        return False, "doc tests" if rc != 124 else "doc tests hang"
    return True, ""

def run_checks(ids, build=True):
    rc, o = sh("cargo build --release --offline -q", cwd=H, timeout=1800) if build else (0, "")
    if rc != 0:
        return "inconclusive", "harness build failed: " + o[-300:]
    env = dict(ENV, VERIF_DIR="/verif", RXV_OUT_DIR=OUT, VERIF_SEED="1")
    incon = []
    for pid in ids:
        rc, o = sh(f"{H}/target/release/rxv {pid} quick", timeout=900, env=env)
        if rc == 1:
            sig = re.search(r"signature=(\S+)", o)
            return "killed-by-check", f"{pid} {sig.group(1) if sig else '?'}"
        if rc != 0:
            incon.append(f"{pid}:rc={rc}")
    if incon:
        return "inconclusive", " ".join(incon)
    return "survived", ""

def main():
    all_sites = sites()
    if ROUND2:
        all_sites = [x for x in all_sites if x[4].startswith(('r2 ', 'swap', 'delete drop'))]
    rnd = random.Random(SEED)
    rnd.shuffle(all_sites)
    sample = all_sites[:N]
    print(f"{len(all_sites)} mutation sites in {len(anch)} anchored files; sampling {len(sample)} (seed {SEED})", flush=True)
    done = set()
    keep = "/verif/mutation/results.jsonl"
    os.makedirs("/verif/mutation", exist_ok=True)
    if os.path.exists(keep):
        for l in open(keep):
            j = json.loads(l); done.add((j["file"], j["line"], j["mutation"], j["after"]))
    setup()
    res = open(keep, "a")
    tally = {}
    for k, (f, i, old, new, what) in enumerate(sample):
        if (f, i + 1, what, new.strip()) in done:
            continue
        p = os.path.join(WT, f)
        src = open(p).read().split("\n")
        assert src[i] == old
        src[i] = new
        if what == "swap with next statement":
            del src[i + 1]
        open(p, "w").write("\n".join(src))
        t0 = time.time()
        rc, o = sh("cargo build --offline --lib -q 2>&1", cwd=WT, timeout=600)
        if rc != 0:
            status, info = "stillborn", ""
        else:
            ok, why = suite_passes()
            if not ok:
                status, info = "killed-by-suite", why
            else:
                ids = sorted(anch[f] | {"C01", "C18"})
                status, info = run_checks(ids)
                if status == "survived":
                    # not seen by the checks of the properties anchored in this file: try every other check
                    rest = [f"C{n:02d}" for n in range(1, 21) if f"C{n:02d}" not in ids]
                    status, info = run_checks(rest, build=False)
                    if status == "killed-by-check":
                        status, info = "killed-by-other-check", info
        subprocess.run(f"git -C {WT} checkout -q -- .", shell=True)
        rec = {"file": f, "line": i + 1, "mutation": what, "before": old.strip(), "after": new.strip(), "status": status, "info": info, "secs": round(time.time() - t0)}
        res.write(json.dumps(rec) + "\n"); res.flush()
        tally[status] = tally.get(status, 0) + 1
        print(f"[{k+1}/{len(sample)}] {f}:{i+1} {what}: {status} {info}", flush=True)
    print("summary", tally, flush=True)
    teardown()

main()
