#!/bin/bash
# usage: allquick.sh <tier> <seed>...   run every check at the given tier for each seed; print one line per run
tier=$1; shift
cd /verif
ids=$(python3 -c "import json;print(' '.join(c['property_id'] for c in json.load(open('MANIFEST.json'))['checks']))")
for s in "$@"; do for id in $ids; do
  out=$(VERIF_SEED=$s RXV_OUT_DIR=/tmp/allquick_out ./check $id $tier 2>&1); rc=$?
  echo "seed=$s $id exit=$rc $(echo "$out" | grep -E '^property=' | sed 's/property=[A-Z0-9]* //')"
  [ $rc -ne 0 ] && echo "$out" | grep -E "VIOLATION|signature|INCONCLUSIVE" | head -3
done; done
