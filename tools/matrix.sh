#!/bin/bash
# sensitivity matrix: every kept seeded change against the quick check of its own property
cd /verif
for d in seeded/*/; do n=$(basename $d); id=$(echo $n | grep -oE "C[0-9][0-9]"); 
  if grep -q '"status_note"' $d/meta.json 2>/dev/null; then echo "$n: skipped (obsolete)"; continue; fi
  tools/seedtest.sh $n $id 2>&1 | grep -E "^$n|does not apply" ; done
