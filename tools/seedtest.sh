#!/bin/bash
# env: SAVE_REGRESS=1 keep the shrunk case as /verif/regress/<id>/seed-<name>.json; NO_REGRESS=1 run without the stored
# regression tapes (generated search only)
# usage: seedtest.sh <seed-name> <property-id>...   apply /verif/seeded/<name>/patch.diff to /repo, run the quick checks, undo.
N=$1; shift
cd /repo || exit 2
if [ -n "$(git status --porcelain --untracked-files=no)" ]; then echo "/repo not clean"; exit 2; fi
git apply /verif/seeded/$N/patch.diff || { echo "$N: patch does not apply"; exit 2; }
for id in "$@"; do
  rm -rf /tmp/seedtest_out; mkdir -p /tmp/seedtest_out; out=$(cd /verif && RXV_NO_REGRESS=$NO_REGRESS RXV_OUT_DIR=/tmp/seedtest_out ./check $id quick 2>&1); rc=$?
  sig=$(echo "$out" | grep -E "signature=" | head -1 | sed 's/detail=.*//')
  echo "$N vs $id: exit=$rc $sig"
  # keep the shrunk failing case as a regression tape (passes on the unchanged tree, fails with this change)
  if [ $rc -eq 1 ] && [ -n "$SAVE_REGRESS" ]; then
    f=$(ls -t /tmp/seedtest_out/replays/$id-*.json 2>/dev/null | head -1)
    if [ -n "$f" ]; then mkdir -p /verif/regress/$id; python3 - "$f" "/verif/regress/$id/seed-$N.json" "$N" <<'PY'
import json,sys
j=json.load(open(sys.argv[1]))
out={"part":j["part"],"part_name":j.get("part_name"),"picks":j["picks"],"origin":"shrunk case that exposed seeded change "+sys.argv[3]+" (signature "+j["signature"]+"); must pass on the unchanged tree"}
json.dump(out,open(sys.argv[2],"w"),indent=1)
PY
    fi
  fi
done
git -C /repo checkout -- .
