#!/usr/bin/env python3
"""add_known.py <replay.json> <status> <what...>  — append a replay as a known finding (manual step, never run by checks)"""
import json,sys
r=json.load(open(sys.argv[1])); status=sys.argv[2]; what=" ".join(sys.argv[3:])
k=json.load(open('/verif/known_findings.json'))
if any(f['property']==r['property'] and f['signature']==r['signature'] and f['status']==status for f in k['findings']):
    print("already listed"); sys.exit(0)
e={"property":r['property'],"status":status,"signature":r['signature'],"what":what,"part":r['part'],"picks":r['picks'],"case":r.get('case')}
if status=="known": e["line"]=f"KNOWN-FINDING: property={r['property']} {r['signature']} -- {what}"
k['findings'].append(e)
json.dump(k,open('/verif/known_findings.json','w'),indent=1)
print("added",r['signature'])
