#!/bin/bash
# usage: allthorough.sh [seed]   run every check at the thorough tier (incl. the libFuzzer campaign); one line per check
cd /verif
s=${1:-1}
ids=$(python3 -c "import json;print(' '.join(c['property_id'] for c in json.load(open('MANIFEST.json'))['checks']))")
for id in $ids; do
  t0=$(date +%s)
  out=$(VERIF_SEED=$s RXV_OUT_DIR=/tmp/allthorough_out ./check $id thorough 2>&1); rc=$?
  echo "seed=$s $id exit=$rc $(( $(date +%s) - t0 ))s $(echo "$out" | grep -E '^property=' | sed 's/property=[A-Z0-9]* //')"
  [ $rc -ne 0 ] && echo "$out" | grep -E "VIOLATION|signature|INCONCLUSIVE|stuck" | head -4
done
