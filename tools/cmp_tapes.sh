#!/bin/bash
# usage: tools/cmp_tapes.sh <commit>
# Generators must stay append-only (DESIGN.md 2.1): every stored tape (regress/*, known_findings.json) has to decode to
# the same case after a generator change.  Builds the harness of <commit> in a scratch directory, replays every tape with
# both binaries, prints the ones whose decoded case differs, removes the scratch directory.
set -e
old=${1:?commit}
S=/tmp/cmp_tapes_$$; mkdir -p $S/out
git -C /verif archive "$old" harness | tar -x -C $S
(cd $S/harness && CARGO_NET_OFFLINE=true cargo build --release --offline -q 2>/dev/null)
(cd /verif/harness && CARGO_NET_OFFLINE=true cargo build --release --offline -q 2>/dev/null)
OLD=$S/harness/target/release/rxv OUT=$S/out python3 - <<'PY'
import json,subprocess,glob,os
old=os.environ['OLD']; new='/verif/harness/target/release/rxv'; out=os.environ['OUT']
env=dict(os.environ, VERIF_DIR=out, RXV_OUT_DIR=out)
def run(b,pid,f):
    r=subprocess.run([b,pid,'--replay',f],capture_output=True,text=True,env=env)
    return r.returncode,r.stdout
tapes=[(f.split('/')[3],f,f) for f in sorted(glob.glob('/verif/regress/*/*.json'))]
kf=json.load(open('/verif/known_findings.json'))
ents=kf if isinstance(kf,list) else kf.get('findings',kf.get('entries'))
for i,e in enumerate(ents):
    if 'picks' in e:
        f=f'{out}/kf{i}.json'
        json.dump({'part':e.get('part',0),'part_name':e.get('part_name'),'picks':e['picks']},open(f,'w'))
        tapes.append((e['property'],f,'known_findings[%d] %s %s'%(i,e.get('status','?'),str(e.get('signature',''))[:60])))
bad=0
for pid,path,name in tapes:
    a=run(old,pid,path); b=run(new,pid,path)
    if a!=b:
        bad+=1
        print('DIFF',pid,name); print(' old:',a[0],a[1][:700].replace('\n',' ')); print(' new:',b[0],b[1][:700].replace('\n',' '))
print(len(tapes),'tapes, differing:',bad,'(hour-scale timer requests differ by real-time noise; anything else is a shifted tape)')
PY
rm -rf $S
