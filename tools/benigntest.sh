#!/bin/bash
# usage: benigntest.sh <name> [ids...]   apply /verif/benign/<name>/patch.diff (a change that keeps its property true but alters
# unconstrained behaviour) to /repo, run the quick checks (default: all 20), undo.  Every check must stay silent.
N=$1; shift
cd /repo || exit 2
if [ -n "$(git status --porcelain --untracked-files=no)" ]; then echo "/repo not clean"; exit 2; fi
git apply /verif/benign/$N/patch.diff || { echo "$N: patch does not apply"; exit 2; }
ids="$@"; [ -z "$ids" ] && ids=$(python3 -c "import json;print(' '.join(c['property_id'] for c in json.load(open('/verif/MANIFEST.json'))['checks']))")
for id in $ids; do
  rm -rf /tmp/benign_out; mkdir -p /tmp/benign_out
  out=$(cd /verif && RXV_OUT_DIR=/tmp/benign_out ./check $id quick 2>&1); rc=$?
  if [ $rc -ne 0 ]; then echo "$N vs $id: exit=$rc $(echo "$out" | grep -E 'signature=|INCONCLUSIVE' | head -1 | cut -c1-260)"; fi
done
echo "$N: done"
git -C /repo checkout -- .
