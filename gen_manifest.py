#!/usr/bin/env python3
"""Regenerates /verif/MANIFEST.json from the table below (keeps it valid at all times)."""
import json, os
HERE = os.path.dirname(os.path.abspath(__file__))
props = [json.loads(l) for l in open(os.path.join(HERE, "properties.jsonl"))]

# id -> (engine, technique, level text, level note, design ref)
CLAIMED = {
  "C02": ("engine-P", "invariant-over-history PBT with fault injection: unsubscribe() / guard drop injected at a generated (thorough: every) position of generated scripts on a virtual clock with an owned scheduler",
          "Generated pipelines of the whole catalogue (all scheduler operators, interval/timer, three executor models, both builds) get an unsubscription injected at a generated position - in part every-cut at every position - after which inputs keep emitting, the clock passes every pending timer and all ready tasks run; no notification may be stamped later than the cut. Exploration within the stated bounds.",
          "Trusts the probe's step stamps and the virtual scheduler; lock-level thread interleavings are the engine-T part's job.",
          "DESIGN.md §3 C02"),
  "C03": ("engine-P", "model-based differential PBT (proptest tapes + shrinking) against a reference list interpreter; bounded-exhaustive enumeration of single operators and of all ordered operator pairs",
          "Random search over operator chains x inputs compared with an independent list-semantics interpreter, plus complete enumeration of every single catalogue operator over all inputs of length <= 4 over {0,1,2} x every terminal and of every ordered pair of operators (compact parameter families) over all inputs of length <= 3 (2.28 M cases, also in the quick tier). Exploration: a passing run means no counterexample within the stated bounds.",
          "Trusts the reference interpreter in harness/src/model.rs (written from the doc comments), the fixed family of predicate/map/fold functions, and that boxing (box_it) is transparent.",
          "DESIGN.md §3 C03"),
  "C01": ("engine-P", "invariant-over-history PBT: generated pipelines x event scripts (proptest tapes + shrinking), grammar oracle on the delivered history",
          "Random search over pipelines of the whole operator catalogue (local and thread-safe builds, every scheduler mode on a virtual clock) driven by scripts with post-terminal events and repeated terminals; the delivered history must match Next* (Error|Complete)?. Exploration within the stated depth/length bounds.",
          "Trusts the probe observer and the AST builder. Note (DESIGN §9): terminals consume the observer by value, so safe Rust already enforces the grammar at any single by-value observer; the check confirms it over the explored space.",
          "DESIGN.md §3 C01"),
  "C04": ("engine-P", "model-based differential PBT over generated interleavings (proptest tapes + shrinking) plus bounded-exhaustive enumeration of all merges of two short scripts; differential PBT of combinators composed into pipelines (operators above and below, nested combinators) and of a consumer that feeds the secondary input of with_latest_from from inside its callback",
          "Each two-input combinator (both forms) is driven by a generated merged timeline of two hot scripts and compared, notification by notification and step by step, with a reference state machine; every operator x all script pairs of <= 4+4 events over a 2-letter alphabet x every interleaving is enumerated completely; combinators inside pipelines (0..2 operators below each input and above, a second combinator nested, three inputs) are compared with the composed reference functions. Exploration within those bounds.",
          "Trusts the reference state machines in harness/src/model.rs; the permissive points are listed in DESIGN.md §7.",
          "DESIGN.md §3 C04"),
  "C05": ("engine-P", "model-based PBT: generated higher-order timelines against an active-set/FIFO-queue simulation plus model-free invariants over tagged items and a live-subscription tracker",
          "Generated outer/inner event timelines (cold and hot inners, every concurrency limit) are compared with a queue simulation; tagged items give exactly-once / per-inner order, a defer+finalize tracker gives the live inner-subscription maximum, panics and MutArc self-deadlocks are verdicts. Exploration within the stated bounds.",
          "Trusts the simulation in props/c05.rs and the tracker operator; self-deadlock detection relies on the verif_hooks lock hook (single thread: a held lock can only be held by the caller).",
          "DESIGN.md §3 C05"),
  "C07": ("engine-P", "oracle-over-timed-history PBT on a virtual clock with an owned scheduler (proptest tapes + shrinking): generated timed scripts x scheduler models (FIFO prompt / FIFO late / any ready task next with generated run order)",
          "Each scheduler-moving operator (all forms incl. _at) runs generated timed scripts on a virtual clock under three executor models; the delivered history is checked for no invention/duplication, never-early (per item: delivery >= production + delay; _at: the duration asked from the timer), and after quiescence for order and completeness against the source script. Exploration within the stated bounds; any-order reorder/loss of observe_on/delay is a listed known finding.",
          "Trusts the virtual clock (NEW_TIMER_FN), the VSched scheduler (delegates to LocalSpawner::schedule; pool per task in the any-order model) and the hour-scale tolerance that absorbs the real Instant::now().",
          "DESIGN.md §3 C07"),
  "C08": ("engine-P", "oracle-over-timed-history PBT on a virtual clock: generated clock/executor scripts over interval, timer and scripted futures/streams (proptest tapes + shrinking)",
          "1-3 independent time/async sources run under generated clock scripts (single firings, jumps over many periods) and three executor models; interval/timer histories are checked for consecutive values, never-early and exact-period timing with a prompt executor; scripted futures/streams must be relayed exactly, never early, never polled after their end, and not stall while values are ready. Exploration within the stated bounds.",
          "Trusts the virtual clock and the scripted Future/Stream implementations in build_body.rs.",
          "DESIGN.md §3 C08"),
  "C06": ("engine-S", "model-based stateful PBT over API histories (vec of ops + interpreter, proptest tapes + shrinking) and bounded-exhaustive enumeration of short histories, for all five subject types",
          "Histories of subscribe / in-callback subscribe / unsubscribe-one / next / error / complete / retain / unsubscribe-subject through cloned handles are applied to the real subject and to a list model; after every step each subscriber's trace, is_finished() and is_empty() are compared. Every history of length <= 5 over a compact alphabet is enumerated for every subject type (thorough). Exploration within those bounds; lock-level interleavings on SubjectThreads belong to the engine-T part.",
          "Trusts the list model in props/c06.rs and the uniform wrapper over the five subject types (subj.rs).",
          "DESIGN.md §3 C06"),
  "C09": ("engine-P", "model-based PBT on a virtual clock: generated timed scripts (incl. source events at the instant a timer expires, before its task runs) against model-free invariants over uniquely numbered items and a discrete-event reference model",
          "debounce / throttle (all edges, fixed and item-dependent windows) / sample(interval) / buffer_with_time / buffer_with_count_and_time run generated timed scripts; outputs must be source items, at most once, in order, buffers non-empty and bounded and complete on completion, and the (time, notification) list must equal a discrete-event reference model of the documented window semantics. Exploration within the stated bounds (single thread; concurrent producers are covered by the engine-T part when present).",
          "Trusts the discrete-event model in props/c09.rs (documented window semantics + FIFO executor semantics) and the virtual clock.",
          "DESIGN.md §3 C09"),
  "C10": ("engine-T", "schedule-as-generated-input PBT: real threads under an owned schedule (one runs at a time, yield at every MutArc lock acquisition via the verif_hooks feature); random preemption lists with shrinking plus exhaustive enumeration of all schedules with <= 2 preemptions",
          "2-3 threads run short scripts (next/complete/error/subscribe/unsubscribe, run-task/advance for scheduler pipelines) against each of the nine thread-safe pipelines; the schedule (which thread holds the baton after which lock acquisition) is part of the generated case. Verdicts: overlapping callbacks on one probe, diverging order between two subscribers of one subject, deadlock (all unfinished threads blocked without progress), lost wake-up, panic. Exploration: random schedules with <= 3 preemptions and complete enumeration of <= 2 preemptions per generated (pipeline, scripts).",
          "Trusts the controller in engine_t.rs and the MutArc lock hook (rc.rs, feature verif_hooks); sequentially consistent one-thread-at-a-time execution (no weak-memory effects); the real thread pools are replaced by a harness-driven VerifSpawner queue.",
          "DESIGN.md §3 C10, §2.5"),
  "C11": ("engine-S", "model-based stateful PBT over subscribe/unsubscribe/source-event histories of share / share_threads / publish (proptest tapes + shrinking, bounded-exhaustive short histories) with instrumented upstream (subscription-counting defer, tap counter, live-task count)",
          "Histories by up to three subscribers over cold, hot and periodic sources are applied to the real shared observable and to a model: number of source subscriptions (0 before connect/first subscribe, exactly 1 after), per-subscriber traces, no upstream side effect after the last subscriber left, periodic task retired one period later. All histories of length <= 6 over a compact alphabet are enumerated (thorough). Exploration within those bounds.",
          "Trusts the model in props/c11.rs and the counting instrumentation (defer/tap) placed upstream of the shared observable.",
          "DESIGN.md §3 C11"),
  "C12": ("engine-S", "model-based stateful PBT over histories on several clones of a BehaviorSubject (proptest tapes + shrinking, bounded-exhaustive short histories), local and thread-safe subject",
          "Histories of next / next_by / clone / subscribe / unsubscribe / peek / complete / error through up to three clones are compared with a (value, subscribers) model: peek() and every new subscriber's first notification equal the most recent value written through any clone (also after a terminal), later items exactly once. Histories of length <= 5 are enumerated (thorough). Exploration within those bounds; concurrent producers belong to the engine-T part.",
          "Trusts the model in props/c12.rs.",
          "DESIGN.md §3 C12"),
  "C13": ("engine-P", "model-based PBT with instrumented closures: generated cold chains built once as CloneableBoxOp, cloned and subscribed successively and nested; counters + reference interpreter as oracle",
          "Generated cold chains (counting source closures, defer factories, poll-counting futures, counting map/filter/scan/tap closures) are built once, then 2-3 clones are subscribed successively and one from inside a callback: all counters must be 0 after building, grow by exactly one per subscription, and every subscription must deliver the reference interpreter's sequence. Exploration within the stated bounds.",
          "Trusts the reference interpreter and the counting wrappers; only operators with a cloneable form are generated (the C03 catalogue).",
          "DESIGN.md §3 C13"),
  "C19": ("engine-S", "model-based stateful PBT against the public scheduler API on a virtual clock with an owned executor (FIFO prompt / FIFO late / any ready task next): generated task sets x cancel / run / advance / is_closed histories",
          "One-shot, subscribing, repeating and future-driven tasks with delays are scheduled through the library's own schedule() path; histories cancel handles before the first poll, while pending on the timer and after completion, under three executor models. Checked: at most once / exactly once when never cancelled, never early, consecutive sequence numbers one period apart, no run after cancel or after is_closed() was true, the product of a subscribing task unsubscribed exactly once iff it ran and was cancelled. Exploration within the stated bounds.",
          "Trusts the virtual clock and VSched (delegates to LocalSpawner::schedule); a cancel racing a running body on another thread is the engine-T part.",
          "DESIGN.md §3 C19"),
  "C20": ("engine-P", "oracle-from-script PBT (proptest tapes + shrinking) with probes attached to each announced group; bounded-exhaustive enumeration of short inputs; differential check of group_by+flat_map against the reference interpreter; group_by.take(n) histories (the announcement of a group ends the stream of groups)",
          "For generated inputs x key functions x terminals (cold and hot sources, Subject and SubjectThreads groups) the global delivery log must equal the source partitioned by key: announcement order, per-item group and step, one terminal per group and for the stream of groups; all inputs of length <= 5 over {0,1,2} are enumerated; flattening the groups must reproduce the source. Exploration within those bounds.",
          "Trusts the list code in props/c20.rs that derives the expected partition from the script; cross-group terminal order is deliberately unconstrained.",
          "DESIGN.md §3 C20"),
  "C14": ("engine-S", "model-based stateful PBT over source histories interleaved with polls (wake-counting waker) of to_future / collect+to_future / to_stream / the completion-status future; bounded-exhaustive short histories; complete_status inside generated pipelines with its flags sampled after every step against the reference terminal",
          "Histories of next/complete/error/poll over Subject and SubjectThreads sources are checked against the documented outcome table (single item, Empty, MultipleValues, error, all items, stream elements then end, status flags), readiness (a poll after the terminal is Ready, never Pending) and wake-up delivery (a Pending poll's waker is woken by the terminal). All histories of length <= 6 are enumerated. Exploration within those bounds.",
          "Trusts the outcome table in props/c14.rs; the producer/waiter thread interleaving is the engine-T part.",
          "DESIGN.md §3 C14"),
  "C15": ("engine-S", "invariant-over-history PBT: generated trigger histories (complete / error / unsubscribe / guard drop, repeated through cloned handles) over pipelines containing finalize, counter sampled after every step; re-subscription of clones; bounded-exhaustive trigger orders",
          "The finalize callback counter is sampled after subscription and after every step: 0 before the first trigger, equal to the number of finalize operators when the triggering step returns, constant afterwards, and the terminal reaches the subscriber before the callback runs; clones subscribed several times are finalized once per subscription. Every trigger order of length <= 5 is enumerated for hot.finalize(). Exploration within those bounds.",
          "Trusts the counting closures and the step sampling in the engine-P executor.",
          "DESIGN.md §3 C15"),
  "C16": ("engine-P", "PBT over producer/intermediate/cutter chains with instrumented producers (counting iterator, counting stream, never-ready stream, virtual-clock interval) and a scheduler-idleness oracle",
          "Generated chains put a periodic, iterator or stream producer behind 0-3 pass-through operators and an early-terminating operator (producer as main input or as second input of every two-input operator); once the subscriber has its terminal the iterator may be pulled at most once more, the stream polled at most once more, and the scheduler must become idle within one period (no live task, no pending timer). Exploration within the stated bounds.",
          "Trusts the pull/poll counters, the Tracked task wrapper (live task count) and the virtual clock's pending-timer count.",
          "DESIGN.md §3 C16"),
  "C17": ("engine-P + engine-S", "invariant-over-history PBT (is_closed() sampled after every step of generated pipeline cases) and model-based stateful testing of MultiSubscription histories incl. additions made from inside the teardown (random + bounded-exhaustive)",
          "Pipelines: is_closed() of the returned subscription is sampled after every step; after the first true no notification and no false may follow. Composites: histories of append/clone/unsubscribe/is_closed/child-finishes/retain on both composite types are compared with a model (every child unsubscribed exactly once, late additions torn down at once, all handles closed after unsubscribe, monotone answers); histories up to length 5 are enumerated exhaustively. Exploration within those bounds.",
          "Trusts the probe subscriptions and the composite model in props/c17.rs.",
          "DESIGN.md §3 C17"),
  "C18": ("engine-P", "differential / metamorphic PBT: every generated case is built from local types and from thread-safe types and the two delivered histories are compared",
          "Each generated pipeline+script is run twice on one thread (local forms vs every _threads/Threads form, same virtual scheduler choices); traces, is_closed() samples and finalize counts must be identical; a panic or self-deadlock in one build only is a difference. Exploration within the stated bounds.",
          "Trusts the two instantiations of the same builder text (build_body.rs) to differ only in the local/thread-safe forms; self-deadlock of a non-reentrant MutArc is detected through the verif_hooks lock hook.",
          "DESIGN.md §3 C18"),
}
WIP = "check not built yet in this revision (work in progress, see DESIGN.md §10 build order)"

checks, na = [], []
for p in props:
  i = p["id"]
  if i in CLAIMED:
    eng, tech, text, note, ref = CLAIMED[i]
    checks.append({
      "property_id": i,
      "quick_cmd": f"./check {i} quick",
      "thorough_cmd": f"./check {i} thorough",
      "evidence_file": f"/verif/evidence/{i}.json",
      "replay_cmd_template": f"./check {i} --replay {{path}}",
      "engine": eng,
      "level_claimed": {"category": "exploration", "text": text, "design_ref": ref},
      "level_note": note,
      "technique": tech,
    })
  else:
    na.append({"property_id": i, "reason": WIP})

m = {
  "version": 1,
  "setup_cmd": "cd /verif/harness && CARGO_NET_OFFLINE=true cargo build --release --offline",
  "hooks": {
    "guard": "cargo feature `verif_hooks` of rxrust (off by default)",
    "enable": "the harness crate /verif/harness depends on /repo by path with features=[\"futures-scheduler\",\"verif_hooks\"] and default-features=false (so the public NEW_TIMER_FN virtual clock is used)",
    "baseline_off_cmd": "cd /repo && cargo test --workspace --no-fail-fast --offline",
    "source_commits": ["82b6cfd"],
    "add_only": True,
  },
  "engines": [
    {"name": "engine-T", "path": "/verif/harness/src (engine_t.rs, tworld.rs, hooks.rs, props/c10.rs)", "serves_properties": [c["property_id"] for c in checks if "engine-T" in c["engine"]] + ["C06 (part threads)"],
     "kind_free_text": "owned-schedule multi-thread executor: real OS threads, exactly one runs at a time, every MutArc lock acquisition is a yield point (verif_hooks), the preemption list is part of the generated case (random + shrinking, exhaustive up to 2 preemptions); deadlock and lost wake-ups are controller verdicts"},
    {"name": "engine-S", "path": "/verif/harness/src (subj.rs, props/c06.rs, props/c17.rs ...)", "serves_properties": [c["property_id"] for c in checks if "engine-S" in c["engine"]],
     "kind_free_text": "stateful model-based testing of API histories: generated operation sequences applied to the real object and to an in-memory model, invariants after every step; random (proptest, shrinking) and bounded-exhaustive (odometer) drivers"},
    {"name": "engine-P", "path": "/verif/harness/src (local.rs, threads.rs, build_body.rs, model.rs, vtime.rs)", "serves_properties": [c["property_id"] for c in checks if "engine-P" in c["engine"]],
     "kind_free_text": "operator-AST interpreter building real rxRust pipelines (BoxOp / BoxOpThreads) driven by generated scripts on a virtual clock; proptest choice tapes, bounded-exhaustive odometer"},
  ],
  "checks": checks,
  "notes": "All checks: ./check <id> quick|thorough rebuilds the harness against /repo's working tree, prints VIOLATION property=<id> replay=<path> and exits 1 on a violation not listed in known_findings.json, exits 2 when inconclusive (build failure, watchdog). VERIF_SEED selects the PRNG seed.",
  "not_applicable": na,
}
json.dump(m, open(os.path.join(HERE, "MANIFEST.json"), "w"), indent=1)
print("claimed", len(checks), "not_applicable", len(na))
