#!/usr/bin/env python3
"""Regenerates /verif/MANIFEST.json from the table below (keeps it valid at all times)."""
import json, os
HERE = os.path.dirname(os.path.abspath(__file__))
props = [json.loads(l) for l in open(os.path.join(HERE, "properties.jsonl"))]

# id -> (engine, technique, level text, level note, design ref)
CLAIMED = {
  "C03": ("engine-P", "model-based differential PBT (proptest tapes + shrinking) against a reference list interpreter; bounded-exhaustive enumeration of single operators",
          "Random search over operator chains x inputs compared with an independent list-semantics interpreter, plus complete enumeration of every single catalogue operator over all inputs of length <= 4 over {0,1,2} x every terminal. Exploration: a passing run means no counterexample within the stated bounds.",
          "Trusts the reference interpreter in harness/src/model.rs (written from the doc comments), the fixed family of predicate/map/fold functions, and that boxing (box_it) is transparent.",
          "DESIGN.md §3 C03"),
}
WIP = "check not built yet in this revision (work in progress, see DESIGN.md §10 build order)"

checks, na = [], []
for p in props:
  i = p["id"]
  if i in CLAIMED:
    eng, tech, text, note, ref = CLAIMED[i]
    checks.append({
      "property_id": i,
      "quick_cmd": f"./check {i} quick",
      "thorough_cmd": f"./check {i} thorough",
      "evidence_file": f"/verif/evidence/{i}.json",
      "replay_cmd_template": f"./check {i} --replay {{path}}",
      "engine": eng,
      "level_claimed": {"category": "exploration", "text": text, "design_ref": ref},
      "level_note": note,
      "technique": tech,
    })
  else:
    na.append({"property_id": i, "reason": WIP})

m = {
  "version": 1,
  "setup_cmd": "cd /verif/harness && CARGO_NET_OFFLINE=true cargo build --release --offline",
  "hooks": {
    "guard": "cargo feature `verif_hooks` of rxrust (off by default)",
    "enable": "the harness crate /verif/harness depends on /repo by path with features=[\"futures-scheduler\",\"verif_hooks\"] and default-features=false (so the public NEW_TIMER_FN virtual clock is used)",
    "baseline_off_cmd": "cd /repo && cargo test --workspace --no-fail-fast --offline",
    "source_commits": HOOK_COMMITS if (HOOK_COMMITS := []) else [],
    "add_only": True,
  },
  "engines": [
    {"name": "engine-P", "path": "/verif/harness/src (local.rs, threads.rs, build_body.rs, model.rs, vtime.rs)", "serves_properties": [c["property_id"] for c in checks if c["engine"] == "engine-P"],
     "kind_free_text": "operator-AST interpreter building real rxRust pipelines (BoxOp / BoxOpThreads) driven by generated scripts on a virtual clock; proptest choice tapes, bounded-exhaustive odometer"},
  ],
  "checks": checks,
  "notes": "All checks: ./check <id> quick|thorough rebuilds the harness against /repo's working tree, prints VIOLATION property=<id> replay=<path> and exits 1 on a violation not listed in known_findings.json, exits 2 when inconclusive (build failure, watchdog). VERIF_SEED selects the PRNG seed.",
  "not_applicable": na,
}
json.dump(m, open(os.path.join(HERE, "MANIFEST.json"), "w"), indent=1)
print("claimed", len(checks), "not_applicable", len(na))
