//! Harness side of the `verif_hooks` feature.  Thread modes:
//!  * Unmanaged: library behaves exactly as without hooks
//!  * Solo: single-thread engines (P/S).  A lock that is already held can only
//!    be held by the calling thread itself => self-deadlock, reported by panicking
//!    (a verdict instead of a hang)
//!  * Controlled: engine T (owned-schedule threads), see engine_t.rs
use std::cell::Cell;

#[derive(Clone, Copy, PartialEq, Eq, Debug)]
pub enum ThreadMode {
  Unmanaged,
  Solo,
  Controlled,
}

thread_local! {
  static MODE: Cell<ThreadMode> = Cell::new(ThreadMode::Unmanaged);
  static YIELDS: Cell<u64> = Cell::new(0);
}

pub const SELF_DEADLOCK: &str = "verif: self-deadlock (thread re-locks a shared cell it already holds)";

pub fn set_mode(m: ThreadMode) {
  MODE.with(|c| c.set(m));
}
pub fn mode() -> ThreadMode {
  MODE.with(|c| c.get())
}
pub fn yields() -> u64 {
  YIELDS.with(|c| c.get())
}

fn managed() -> bool {
  mode() != ThreadMode::Unmanaged
}
fn yield_point(kind: u8, addr: usize) {
  YIELDS.with(|c| c.set(c.get() + 1));
  if mode() == ThreadMode::Controlled {
    crate::engine_t::on_yield(kind, addr);
  }
}
fn blocked(addr: usize) {
  match mode() {
    ThreadMode::Solo => panic!("{SELF_DEADLOCK}"),
    ThreadMode::Controlled => crate::engine_t::on_blocked(addr),
    ThreadMode::Unmanaged => std::thread::yield_now(),
  }
}

pub fn install() {
  rxrust::verif_hooks::install(rxrust::verif_hooks::Hooks { managed, yield_point, blocked });
}
