//! logical clock: index of the script step currently being executed
use std::cell::Cell;
thread_local! { static STEP: Cell<usize> = Cell::new(usize::MAX); }
pub const AT_SUBSCRIBE: usize = usize::MAX;
pub fn set(s: usize) {
  STEP.with(|c| c.set(s))
}
pub fn get() -> usize {
  STEP.with(|c| c.get())
}

// global sequence number of probe deliveries (to order other side effects against them)
thread_local! { static EVSEQ: Cell<usize> = Cell::new(0); }
pub fn evseq_reset() {
  EVSEQ.with(|c| c.set(0))
}
pub fn evseq_bump() -> usize {
  EVSEQ.with(|c| {
    c.set(c.get() + 1);
    c.get()
  })
}
pub fn evseq() -> usize {
  EVSEQ.with(|c| c.get())
}
