//! logical clock: index of the script step currently being executed
use std::cell::Cell;
thread_local! { static STEP: Cell<usize> = Cell::new(usize::MAX); }
pub const AT_SUBSCRIBE: usize = usize::MAX;
pub fn set(s: usize) {
  STEP.with(|c| c.set(s))
}
pub fn get() -> usize {
  STEP.with(|c| c.get())
}
