//! Reference interpreter: evaluates an operator AST over *timelines* (lists of
//! stamped notifications) with plain list code written from the documented
//! semantics.  It shares no code shape with the library (no observers, no shared
//! cells).  Stamp = index of the script step that caused the notification, -1 for
//! "at subscription".
use crate::ast::*;
use crate::value::*;

pub type Tl = Vec<(i64, Ev)>;

#[derive(Clone, Default)]
pub struct Inputs {
  /// raw events sent into hot input #i (possibly continuing after a terminal)
  pub hot: Vec<Tl>,
  /// initial values of BehaviorSubject inputs
  pub beh_init: Vec<V>,
}

#[derive(Clone, Copy, Default)]
pub struct Opts {
  /// skip_last holds items back until completion (doc reading) instead of
  /// releasing item i when item i+n arrives (code reading)
  pub skip_last_lazy: bool,
  /// buffer(notifier): notifier completion is ignored instead of flush+complete
  pub buffer_ignore_notifier_complete: bool,
  /// take(0) completes at subscription instead of mirroring the source's terminal
  pub take0_immediate: bool,
  /// take(0) completes when the first item arrives (a terminal that comes first is forwarded)
  pub take0_at_first_item: bool,
}

/// cut after the first terminal
pub fn cut(mut t: Tl) -> Tl {
  if let Some(p) = t.iter().position(|(_, e)| e.is_terminal()) {
    t.truncate(p + 1);
  }
  t
}

fn items(t: &Tl) -> Vec<(i64, V)> {
  t.iter().filter_map(|(s, e)| if let Ev::N(v) = e { Some((*s, v.clone())) } else { None }).collect()
}
fn terminal(t: &Tl) -> Option<(i64, Ev)> {
  t.last().filter(|(_, e)| e.is_terminal()).cloned()
}

fn cold(evs: Vec<Ev>) -> Tl {
  cut(evs.into_iter().map(|e| (-1, e)).collect())
}

pub fn eval_src(s: &Src, inp: &Inputs, o: Opts) -> Option<Tl> {
  Some(match s {
    Src::Of(v) | Src::OfFn(v) | Src::Start(v) | Src::FutureReady(v) => cold(vec![Ev::N(v.clone()), Ev::C]),
    Src::FutureResultReady(Ok(v)) => cold(vec![Ev::N(v.clone()), Ev::C]),
    Src::FutureResultReady(Err(e)) => cold(vec![Ev::Er(e.clone())]),
    Src::OfOption(Some(v)) => cold(vec![Ev::N(v.clone()), Ev::C]),
    Src::OfOption(None) => cold(vec![Ev::C]),
    Src::OfResult(Ok(v)) => cold(vec![Ev::N(v.clone()), Ev::C]),
    Src::OfResult(Err(e)) => cold(vec![Ev::Er(e.clone())]),
    Src::FromIter(vs) => {
      let mut evs: Vec<Ev> = vs.iter().cloned().map(Ev::N).collect();
      evs.push(Ev::C);
      cold(evs)
    }
    Src::Repeat(v, n) => {
      let mut evs: Vec<Ev> = (0..*n).map(|_| Ev::N(v.clone())).collect();
      evs.push(Ev::C);
      cold(evs)
    }
    Src::Empty => cold(vec![Ev::C]),
    Src::Never => vec![],
    Src::Throw(e) => cold(vec![Ev::Er(e.clone())]),
    Src::Create(script) => cold(script.iter().map(|(_, e)| e.clone()).collect()),
    Src::Defer(n) => return eval(n, inp, o),
    Src::Hot(i) | Src::HotCreate(i) => cut(inp.hot[*i].clone()),
    Src::Behavior(i, _) => {
      // current value at subscription (subscription precedes every script step), then the subject
      let mut t = vec![(-1, Ev::N(inp.beh_init[*i].clone()))];
      t.extend(inp.hot[*i].clone());
      cut(t)
    }
    Src::Interval(_) | Src::Timer(..) | Src::CountingIter(_) | Src::CountingStream(_) | Src::SilentStream | Src::CountingTryStream(_) => return None,
  })
}

fn pointwise(t: Tl, mut f: impl FnMut(V) -> Option<V>) -> Tl {
  t.into_iter()
    .filter_map(|(s, e)| match e {
      Ev::N(v) => f(v).map(|v| (s, Ev::N(v))),
      other => Some((s, other)),
    })
    .collect()
}

/// on completion emit `f(items)` (if Some) then C; on error only the error
fn at_completion(t: Tl, f: impl FnOnce(Vec<V>) -> Vec<V>) -> Tl {
  match terminal(&t) {
    Some((s, Ev::C)) => {
      let vs: Vec<V> = items(&t).into_iter().map(|(_, v)| v).collect();
      let mut out: Tl = f(vs).into_iter().map(|v| (s, Ev::N(v))).collect();
      out.push((s, Ev::C));
      out
    }
    Some((s, e)) => vec![(s, e)],
    None => vec![],
  }
}

fn take_n(t: Tl, n: usize) -> Tl {
  let mut out = vec![];
  let mut k = 0;
  for (s, e) in t {
    match e {
      Ev::N(v) => {
        if k < n {
          k += 1;
          out.push((s, Ev::N(v)));
          if k == n {
            out.push((s, Ev::C));
            return out;
          }
        }
      }
      other => {
        out.push((s, other));
        return out;
      }
    }
  }
  out
}

fn skip_n(t: Tl, n: usize) -> Tl {
  let mut k = 0;
  t.into_iter()
    .filter(|(_, e)| match e {
      Ev::N(_) => {
        k += 1;
        k > n
      }
      _ => true,
    })
    .collect()
}

fn default_if_empty(t: Tl, d: V) -> Tl {
  match terminal(&t) {
    Some((s, Ev::C)) if items(&t).is_empty() => vec![(s, Ev::N(d)), (s, Ev::C)],
    _ => t,
  }
}

fn last(t: Tl) -> Tl {
  at_completion(t, |vs| vs.last().cloned().into_iter().collect())
}

fn scan(t: Tl, f: Fold, seed: V) -> Tl {
  let mut acc = seed;
  pointwise(t, move |v| {
    acc = f.eval(acc.clone(), v);
    Some(acc.clone())
  })
}

pub fn eval_un(op: &Un, t: Tl, o: Opts) -> Option<Tl> {
  Some(match op {
    Un::Map(f) => pointwise(t, |v| Some(f.eval(v))),
    Un::MapTo(c) => pointwise(t, |_| Some(c.clone())),
    Un::Filter(p) => pointwise(t, |v| if p.eval(&v) { Some(v) } else { None }),
    Un::FilterMap => pointwise(t, fm_even_half),
    Un::Tap | Un::OnComplete | Un::BoxIt | Un::Finalize | Un::CompleteStatus | Un::TrackLive => t,
    Un::Take(n) => {
      if *n == 0 {
        // statement and docs are silent: no item ever, and the stream ends at subscription, with the first item,
        // or with the source's own terminal
        if o.take0_immediate {
          vec![(-1, Ev::C)]
        } else if o.take0_at_first_item {
          match t.first() {
            Some((s, Ev::N(_))) => vec![(*s, Ev::C)],
            Some((s, e)) => vec![(*s, e.clone())],
            None => vec![],
          }
        } else {
          pointwise(t, |_| None)
        }
      } else {
        take_n(t, *n)
      }
    }
    Un::First => take_n(t, 1),
    Un::FirstOr(d) => default_if_empty(take_n(t, 1), d.clone()),
    Un::Skip(n) => skip_n(t, *n),
    Un::ElementAt(k) => take_n(skip_n(t, *k), 1),
    Un::TakeWhile(p) | Un::TakeWhileInclusive(p) => {
      let inclusive = matches!(op, Un::TakeWhileInclusive(_));
      let mut out = vec![];
      for (s, e) in t {
        match e {
          Ev::N(v) => {
            if p.eval(&v) {
              out.push((s, Ev::N(v)));
            } else {
              if inclusive {
                out.push((s, Ev::N(v)));
              }
              out.push((s, Ev::C));
              break;
            }
          }
          other => {
            out.push((s, other));
            break;
          }
        }
      }
      out
    }
    Un::SkipWhile(p) => {
      let mut skipping = true;
      pointwise(t, move |v| {
        if skipping && p.eval(&v) {
          None
        } else {
          skipping = false;
          Some(v)
        }
      })
    }
    Un::TakeLast(n) => {
      let n = *n;
      at_completion(t, move |vs| {
        let k = vs.len().saturating_sub(n);
        vs[k..].to_vec()
      })
    }
    Un::SkipLast(n) => {
      let n = *n;
      if o.skip_last_lazy {
        at_completion(t, move |vs| {
          let k = vs.len().saturating_sub(n);
          vs[..k].to_vec()
        })
      } else {
        // item i is released when item i+n arrives
        let its = items(&t);
        let mut out: Tl = vec![];
        for (idx, (s, _)) in its.iter().enumerate() {
          if idx >= n {
            out.push((*s, Ev::N(its[idx - n].1.clone())));
          }
        }
        if let Some(tm) = terminal(&t) {
          out.push(tm);
        }
        out
      }
    }
    Un::Last => last(t),
    Un::LastOr(d) => default_if_empty(last(t), d.clone()),
    Un::IgnoreElements => pointwise(t, |_| None),
    Un::StartWith(vs) => {
      let mut out: Tl = vs.iter().map(|v| (-1, Ev::N(v.clone()))).collect();
      out.extend(t);
      out
    }
    Un::DefaultIfEmpty(d) => default_if_empty(t, d.clone()),
    Un::Scan(f, seed) => scan(t, *f, seed.clone()),
    Un::Reduce(f, seed) => {
      let (f, seed) = (*f, seed.clone());
      at_completion(t, move |vs| vec![vs.into_iter().fold(seed, |a, v| f.eval(a, v))])
    }
    Un::Count => at_completion(t, |vs| vec![V::I(vs.len() as i64)]),
    Un::Sum => at_completion(t, |vs| vec![V::I(vs.iter().fold(0i64, |a, v| a.wrapping_add(to_i(v))))]),
    Un::Min => at_completion(t, |vs| {
      // the first minimal element
      let mut best: Option<V> = None;
      for v in vs {
        best = match best {
          Some(b) if b < v => Some(b),
          Some(b) if b == v => Some(b),
          _ => Some(v),
        };
      }
      best.into_iter().collect()
    }),
    Un::Max => at_completion(t, |vs| {
      let mut best: Option<V> = None;
      for v in vs {
        best = match best {
          Some(b) if b > v => Some(b),
          _ => Some(v),
        };
      }
      best.into_iter().collect()
    }),
    Un::Average => at_completion(t, |vs| {
      if vs.is_empty() {
        vec![]
      } else {
        let sum: f64 = vs.iter().map(avg_in).sum();
        vec![avg_out(sum / vs.len() as f64)]
      }
    }),
    Un::Distinct => {
      let mut seen: Vec<V> = vec![];
      pointwise(t, move |v| {
        if seen.contains(&v) {
          None
        } else {
          seen.push(v.clone());
          Some(v)
        }
      })
    }
    Un::DistinctKey(k) => {
      let mut seen: Vec<i64> = vec![];
      pointwise(t, move |v| {
        let key = k.eval(&v);
        if seen.contains(&key) {
          None
        } else {
          seen.push(key);
          Some(v)
        }
      })
    }
    Un::DistinctUntilChanged => {
      let mut prev: Option<V> = None;
      pointwise(t, move |v| {
        if prev.as_ref() == Some(&v) {
          None
        } else {
          prev = Some(v.clone());
          Some(v)
        }
      })
    }
    Un::DistinctUntilKeyChanged(k) => {
      // compare with the key of the previously *emitted* item (== previous item's key run)
      let mut prev: Option<i64> = None;
      pointwise(t, move |v| {
        let key = k.eval(&v);
        if prev == Some(key) {
          None
        } else {
          prev = Some(key);
          Some(v)
        }
      })
    }
    Un::Pairwise => {
      let mut prev: Option<V> = None;
      pointwise(t, move |v| {
        let r = prev.take().map(|p| pair(p, v.clone()));
        prev = Some(v);
        r
      })
    }
    Un::BufferWithCount(n) => {
      if *n == 0 {
        return None;
      }
      let mut buf: Vec<V> = vec![];
      let mut out: Tl = vec![];
      for (s, e) in t {
        match e {
          Ev::N(v) => {
            buf.push(v);
            if buf.len() >= *n {
              out.push((s, Ev::N(V::L(std::mem::take(&mut buf)))));
            }
          }
          Ev::C => {
            if !buf.is_empty() {
              out.push((s, Ev::N(V::L(std::mem::take(&mut buf)))));
            }
            out.push((s, Ev::C));
          }
          Ev::Er(e) => out.push((s, Ev::Er(e))),
        }
      }
      out
    }
    Un::Contains(x) => {
      let mut out = vec![];
      for (s, e) in t {
        match e {
          Ev::N(v) => {
            if v == *x {
              out.push((s, Ev::N(V::B(true))));
              out.push((s, Ev::C));
              break;
            }
          }
          Ev::C => {
            out.push((s, Ev::N(V::B(false))));
            out.push((s, Ev::C));
          }
          Ev::Er(e) => out.push((s, Ev::Er(e))),
        }
      }
      out
    }
    Un::All(p) => {
      let mut out = vec![];
      for (s, e) in t {
        match e {
          Ev::N(v) => {
            if !p.eval(&v) {
              out.push((s, Ev::N(V::B(false))));
              out.push((s, Ev::C));
              break;
            }
          }
          Ev::C => {
            out.push((s, Ev::N(V::B(true))));
            out.push((s, Ev::C));
          }
          Ev::Er(e) => out.push((s, Ev::Er(e))),
        }
      }
      out
    }
    Un::Collect => at_completion(t, |vs| vec![V::L(vs)]),
    Un::OnErrorMap(k) => t
      .into_iter()
      .map(|(s, e)| match e {
        Ev::Er(e) => (s, Ev::Er(E(e.0.wrapping_add(*k)))),
        other => (s, other),
      })
      .collect(),
    Un::OnError => t.into_iter().filter(|(_, e)| !matches!(e, Ev::Er(_))).collect(),
    Un::GroupByFlatten(_) => t,
    // share with a single subscriber, subscribed before any event, mirrors its source
    Un::Share => t,
    // time operators are modelled in their own property modules
    Un::ObserveOn
    | Un::Delay(_)
    | Un::DelaySubscription(_)
    | Un::DelayAt(_)
    | Un::DelaySubscriptionAt(_)
    | Un::SubscribeOn
    | Un::Debounce(_)
    | Un::ThrottleTime(..)
    | Un::Throttle(_)
    | Un::BufferWithTime(_)
    | Un::BufferWithCountAndTime(..) => return None,
  })
}

#[derive(Clone, Copy, PartialEq)]
enum Side {
  A,
  B,
}

/// merge two cut timelines by stamp; None when both have events at the same
/// stamp (their relative order would depend on subscription order)
fn interleave(a: &Tl, b: &Tl) -> Option<Vec<(i64, Side, Ev)>> {
  for (sa, _) in a {
    if b.iter().any(|(sb, _)| sb == sa) {
      return None;
    }
  }
  let mut all: Vec<(i64, Side, Ev)> = a
    .iter()
    .map(|(s, e)| (*s, Side::A, e.clone()))
    .chain(b.iter().map(|(s, e)| (*s, Side::B, e.clone())))
    .collect();
  all.sort_by_key(|(s, _, _)| *s); // stable: keeps each side's own order
  Some(all)
}

pub fn eval_bin(op: Bin, a: Tl, b: Tl, o: Opts) -> Option<Tl> {
  let tl = interleave(&a, &b)?;
  let mut out: Tl = vec![];
  match op {
    Bin::Merge => {
      let mut done = 0;
      for (s, _, e) in tl {
        match e {
          Ev::N(v) => out.push((s, Ev::N(v))),
          Ev::Er(e) => {
            out.push((s, Ev::Er(e)));
            break;
          }
          Ev::C => {
            done += 1;
            if done == 2 {
              out.push((s, Ev::C));
            }
          }
        }
      }
    }
    Bin::Zip => {
      let (mut qa, mut qb): (Vec<V>, Vec<V>) = (vec![], vec![]);
      let mut done = 0;
      for (s, side, e) in tl {
        match e {
          Ev::N(v) => {
            if side == Side::A {
              qa.push(v)
            } else {
              qb.push(v)
            }
            if !qa.is_empty() && !qb.is_empty() {
              out.push((s, Ev::N(pair(qa.remove(0), qb.remove(0)))));
            }
          }
          Ev::Er(e) => {
            out.push((s, Ev::Er(e)));
            break;
          }
          Ev::C => {
            done += 1;
            if done == 2 {
              out.push((s, Ev::C));
            }
          }
        }
      }
    }
    Bin::CombineLatest => {
      let (mut la, mut lb): (Option<V>, Option<V>) = (None, None);
      let mut done = 0;
      for (s, side, e) in tl {
        match e {
          Ev::N(v) => {
            if side == Side::A {
              la = Some(v)
            } else {
              lb = Some(v)
            }
            if let (Some(x), Some(y)) = (&la, &lb) {
              out.push((s, Ev::N(pair(x.clone(), y.clone()))));
            }
          }
          Ev::Er(e) => {
            out.push((s, Ev::Er(e)));
            break;
          }
          Ev::C => {
            done += 1;
            if done == 2 {
              out.push((s, Ev::C));
            }
          }
        }
      }
    }
    Bin::WithLatestFrom => {
      let mut lb: Option<V> = None;
      for (s, side, e) in tl {
        match (side, e) {
          (Side::B, Ev::N(v)) => lb = Some(v),
          (Side::A, Ev::N(v)) => {
            if let Some(y) = &lb {
              out.push((s, Ev::N(pair(v, y.clone()))));
            }
          }
          (_, Ev::Er(e)) => {
            out.push((s, Ev::Er(e)));
            break;
          }
          (Side::A, Ev::C) => {
            out.push((s, Ev::C));
            break;
          }
          (Side::B, Ev::C) => {}
        }
      }
    }
    Bin::TakeUntil => {
      for (s, side, e) in tl {
        match (side, e) {
          (Side::A, e) => {
            let t = e.is_terminal();
            out.push((s, e));
            if t {
              break;
            }
          }
          (Side::B, Ev::N(_)) => {
            out.push((s, Ev::C));
            break;
          }
          (Side::B, _) => {}
        }
      }
    }
    Bin::SkipUntil => {
      let mut open = false;
      for (s, side, e) in tl {
        match (side, e) {
          (Side::B, Ev::N(_)) => open = true,
          (Side::B, _) => {}
          (Side::A, Ev::N(v)) => {
            if open {
              out.push((s, Ev::N(v)))
            }
          }
          (Side::A, e) => {
            out.push((s, e));
            break;
          }
        }
      }
    }
    Bin::Sample => {
      let mut cell: Option<V> = None;
      for (s, side, e) in tl {
        match (side, e) {
          (Side::A, Ev::N(v)) => cell = Some(v),
          (Side::A, Ev::C) => {
            out.push((s, Ev::C));
            break;
          }
          (Side::B, Ev::N(_)) | (Side::B, Ev::C) => {
            if let Some(v) = cell.take() {
              out.push((s, Ev::N(v)));
            }
          }
          (_, Ev::Er(e)) => {
            out.push((s, Ev::Er(e)));
            break;
          }
        }
      }
    }
    Bin::Buffer => {
      let mut buf: Vec<V> = vec![];
      for (s, side, e) in tl {
        match (side, e) {
          (Side::A, Ev::N(v)) => buf.push(v),
          (Side::B, Ev::N(_)) => {
            if !buf.is_empty() {
              out.push((s, Ev::N(V::L(std::mem::take(&mut buf)))));
            }
          }
          (Side::B, Ev::C) if o.buffer_ignore_notifier_complete => {}
          (_, Ev::C) => {
            if !buf.is_empty() {
              out.push((s, Ev::N(V::L(std::mem::take(&mut buf)))));
            }
            out.push((s, Ev::C));
            break;
          }
          (_, Ev::Er(e)) => {
            out.push((s, Ev::Er(e)));
            break;
          }
        }
      }
    }
  }
  Some(out)
}

/// expected notification sequence of `node` (None: outside the model's domain)
pub fn eval(node: &Node, inp: &Inputs, o: Opts) -> Option<Tl> {
  match node {
    Node::Src(s) => eval_src(s, inp, o),
    Node::Un(op, _, n) => eval_un(op, eval(n, inp, o)?, o).map(cut),
    Node::Bin(op, _, a, b) => eval_bin(*op, eval(a, inp, o)?, eval(b, inp, o)?, o).map(cut),
    Node::Flat(..) => None,
  }
}

pub fn strip(t: &Tl) -> Vec<Ev> {
  t.iter().map(|(_, e)| e.clone()).collect()
}
