//! Choice sources: every generator in this crate is an ordinary function over
//! `&mut dyn Choices`.  A *case* is fully determined by the sequence of picks.
//! `pick(n)` returns a value in `0..n`; 0 is always the simplest alternative.

pub trait Choices {
  fn pick(&mut self, n: usize) -> usize;
  /// picks resolved so far (driver independent replay format)
  fn record(&self) -> &[u32];
}

/// helper methods usable on `dyn Choices`
pub trait ChoicesExt: Choices {
  fn flag(&mut self) -> bool {
    self.pick(2) == 1
  }
  /// true with probability ~ num/den
  fn chance(&mut self, num: usize, den: usize) -> bool {
    self.pick(den) >= den - num
  }
  fn range(&mut self, lo: usize, hi_incl: usize) -> usize {
    lo + self.pick(hi_incl - lo + 1)
  }
  fn one_of<'a, T>(&mut self, xs: &'a [T]) -> &'a T {
    &xs[self.pick(xs.len())]
  }
}
impl<T: Choices + ?Sized> ChoicesExt for T {}

/// random driver: a tape of u32 words (from proptest); monotone mapping so
/// that shrinking a word shrinks the pick; exhausted tape => 0.
pub struct Tape<'a> {
  data: &'a [u32],
  pos: usize,
  rec: Vec<u32>,
}
impl<'a> Tape<'a> {
  pub fn new(data: &'a [u32]) -> Self {
    Tape { data, pos: 0, rec: Vec::with_capacity(64) }
  }
}
impl<'a> Choices for Tape<'a> {
  fn pick(&mut self, n: usize) -> usize {
    debug_assert!(n >= 1);
    let x = if self.pos < self.data.len() { self.data[self.pos] } else { 0 };
    self.pos += 1;
    let r = ((x as u64 * n as u64) >> 32) as usize;
    self.rec.push(r as u32);
    r
  }
  fn record(&self) -> &[u32] {
    &self.rec
  }
}

/// fuzz driver: one byte per pick (two when n > 256)
pub struct Bytes<'a> {
  data: &'a [u8],
  pos: usize,
  rec: Vec<u32>,
}
impl<'a> Bytes<'a> {
  pub fn new(data: &'a [u8]) -> Self {
    Bytes { data, pos: 0, rec: Vec::with_capacity(64) }
  }
}
impl<'a> Choices for Bytes<'a> {
  fn pick(&mut self, n: usize) -> usize {
    let b = if self.pos < self.data.len() { self.data[self.pos] } else { 0 } as usize;
    self.pos += 1;
    let r = if n <= 256 {
      b % n.max(1)
    } else {
      let b2 = if self.pos < self.data.len() { self.data[self.pos] } else { 0 } as usize;
      self.pos += 1;
      (b * 256 + b2) % n
    };
    self.rec.push(r as u32);
    r
  }
  fn record(&self) -> &[u32] {
    &self.rec
  }
}

/// replay driver: explicit picks, clamped to the arity; exhausted => 0
pub struct Fixed {
  picks: Vec<u32>,
  pos: usize,
  rec: Vec<u32>,
}
impl Fixed {
  pub fn new(picks: Vec<u32>) -> Self {
    Fixed { picks, pos: 0, rec: vec![] }
  }
}
impl Choices for Fixed {
  fn pick(&mut self, n: usize) -> usize {
    let x = if self.pos < self.picks.len() { self.picks[self.pos] as usize } else { 0 };
    self.pos += 1;
    let r = x.min(n - 1);
    self.rec.push(r as u32);
    r
  }
  fn record(&self) -> &[u32] {
    &self.rec
  }
}

/// bounded-exhaustive driver: depth-first odometer over the choice tree.
/// Usage: `let mut od = Odometer::new(); loop { run(&mut od); if !od.advance() {break} }`
pub struct Odometer {
  picks: Vec<u32>,
  arity: Vec<u32>,
  pos: usize,
  /// picks beyond this depth are forced to 0 (bounds the tree)
  pub max_depth: usize,
  pub truncated: bool,
}
impl Odometer {
  pub fn new(max_depth: usize) -> Self {
    Odometer { picks: vec![], arity: vec![], pos: 0, max_depth, truncated: false }
  }
  /// pin the first pick (used to split the tree between workers)
  pub fn force_first(&mut self, v: u32) {
    self.picks = vec![v];
    self.arity = vec![v + 1];
    self.pos = 0;
  }
  /// like `advance` but never changes the first pick
  pub fn advance_keep_first(&mut self) -> bool {
    self.picks.truncate(self.pos.max(1));
    self.arity.truncate(self.pos.max(1));
    self.pos = 0;
    self.truncated = false;
    while self.picks.len() > 1 {
      let last = self.picks.pop().unwrap();
      let ar = self.arity.pop().unwrap();
      if last + 1 < ar {
        self.picks.push(last + 1);
        self.arity.push(ar);
        return true;
      }
    }
    false
  }
  /// move to the next leaf; false when the tree is exhausted
  pub fn advance(&mut self) -> bool {
    // drop the unused tail of the previous prefix
    self.picks.truncate(self.pos);
    self.arity.truncate(self.pos);
    self.pos = 0;
    while let Some(last) = self.picks.pop() {
      let ar = self.arity.pop().unwrap();
      if last + 1 < ar {
        self.picks.push(last + 1);
        self.arity.push(ar);
        return true;
      }
    }
    false
  }
}
impl Choices for Odometer {
  fn pick(&mut self, n: usize) -> usize {
    let i = self.pos;
    self.pos += 1;
    if i >= self.max_depth {
      if n > 1 {
        self.truncated = true;
      }
      return 0;
    }
    if i < self.picks.len() {
      self.arity[i] = n as u32;
      (self.picks[i] as usize).min(n - 1)
    } else {
      self.picks.push(0);
      self.arity.push(n as u32);
      0
    }
  }
  fn record(&self) -> &[u32] {
    let n = self.pos.min(self.picks.len());
    &self.picks[..n]
  }
}
