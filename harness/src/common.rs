//! types shared by the two builder instantiations
use crate::value::Ev;

/// counters a pipeline may bump (shared between the harness and closures)
#[derive(Default, Debug, Clone, PartialEq)]
pub struct Counters {
  pub finalize_calls: usize,
  /// for every finalize callback run: (script step, number of probe deliveries made before it)
  pub finalize_marks: Vec<(usize, usize)>,
  pub tap_calls: usize,
  pub src_calls: usize,
  pub on_complete_calls: usize,
  pub on_error_calls: usize,
  /// TrackLive: currently subscribed tracked observables, and the maximum seen
  pub live: i64,
  pub max_live: i64,
  pub track_subscribes: usize,
  /// calls of the closures given to map / filter / scan
  pub fn_calls: usize,
  /// script step at which each `defer` factory ran (= the moment of subscription)
  pub defer_steps: Vec<usize>,
  /// virtual time (ticks) at which each `defer` factory ran
  pub defer_vts: Vec<u64>,
  pub fut_polls: usize,
  /// items pulled from counting iterators / polls of counting streams
  pub iter_pulls: usize,
  pub stream_polls: usize,
  /// (filled in by the harness when a snapshot is taken) timers fired so far
  pub clock_firings: u64,
}

#[derive(Clone, Debug, PartialEq)]
pub struct Rec {
  pub ev: Ev,
  /// index of the script step during which the event was delivered (usize::MAX = at subscription)
  pub step: usize,
  /// virtual time of delivery, in ticks
  pub vt: u64,
}

/// what happened when a PCase ran
#[derive(Clone, Debug, Default, PartialEq)]
pub struct Trace {
  pub recs: Vec<Rec>,
  /// script index of the Unsub/DropGuard step, if any was executed
  pub unsub_at: Option<usize>,
  /// scheduled tasks not yet retired / timers pending at the moment of the unsubscription
  pub live_at_unsub: usize,
  pub timers_at_unsub: usize,
  /// (step index, is_closed()) sampled after subscription (index usize::MAX) and after every step
  pub closed: Vec<(usize, bool)>,
  pub counters: Counters,
  pub live_tasks_end: usize,
  pub pending_timers_end: usize,
  pub quiescent: bool,
  pub status_flags: Vec<(bool, bool)>,
  /// (is_completed, error_occur) of every complete_status handle, sampled after subscription and after every script step
  /// (only when `sample_closed` is set)
  pub status_after_step: Vec<Vec<(bool, bool)>>,
  /// every duration asked from the timer function (ticks), in order
  pub requested: Vec<u64>,
  /// counters at the moment the probe received its terminal
  pub counters_at_terminal: Option<Counters>,
  /// timers fired by the final drain
  pub drain_firings: usize,
  /// finalize callback runs counted after subscription and after every script step
  pub finalize_after_step: Vec<usize>,
  /// items the final subscriber fed back into hot input 0 from inside its callback: (step, virtual time, item)
  pub fb: Vec<(usize, u64, crate::value::V)>,
}

impl Trace {
  pub fn events(&self) -> Vec<Ev> {
    self.recs.iter().map(|r| r.ev.clone()).collect()
  }
  pub fn short(&self) -> String {
    self
      .recs
      .iter()
      .map(|r| format!("{}@{}", crate::value::ev_short(&r.ev), if r.step == usize::MAX { -1 } else { r.step as i64 }))
      .collect::<Vec<_>>()
      .join(" ")
  }
}

/// run a pipeline case with the local or the thread-safe build; Err = panic message
pub fn run_pcase_fb(case: &crate::ast::PCase, sample_closed: bool, fb: &[i64]) -> Result<Trace, String> {
  crate::run::guarded_strict(|| if case.threads { crate::threads::exec_fb(case, sample_closed, fb) } else { crate::local::exec_fb(case, sample_closed, fb) })
}
pub fn run_pcase(case: &crate::ast::PCase, sample_closed: bool) -> Result<Trace, String> {
  crate::run::guarded_strict(|| if case.threads { crate::threads::exec(case, sample_closed) } else { crate::local::exec(case, sample_closed) })
}
