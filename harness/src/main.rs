mod ast;
mod choice;
mod common;
mod engine_t;
mod hooks;
mod local;
mod model;
mod props;
mod run;
mod stamp;
mod subj;
mod tworld;
mod threads;
mod value;
mod vtime;

use run::Tier;

fn main() {
  let args: Vec<String> = std::env::args().collect();
  if args.len() < 3 {
    eprintln!("usage: rxv <property-id> <quick|thorough> | rxv <property-id> --replay <file>");
    std::process::exit(2);
  }
  run::install_panic_hook();
  vtime::install();
  hooks::install();
  let props = props::all();
  let Some(prop) = props.iter().find(|p| p.id == args[1]) else {
    eprintln!("unknown property {}", args[1]);
    std::process::exit(2);
  };
  let seed: u64 = std::env::var("VERIF_SEED").ok().and_then(|s| s.parse().ok()).unwrap_or(1);
  let code = if args[2] == "--replay" {
    run::replay_file(prop, &args[3])
  } else {
    let tier = match std::env::var("VERIF_TIER").ok().as_deref().or(Some(args[2].as_str())) {
      Some("thorough") => Tier::Thorough,
      _ => Tier::Quick,
    };
    let tier = if args[2] == "thorough" { Tier::Thorough } else if args[2] == "quick" { Tier::Quick } else { tier };
    run::check(prop, tier, seed)
  };
  std::process::exit(code);
}
