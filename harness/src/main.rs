use rxv::run::{self, Tier};
use rxv::{hooks, props, vtime};

fn main() {
  let args: Vec<String> = std::env::args().collect();
  if args.len() < 3 {
    eprintln!("usage: rxv <property-id> <quick|thorough> | rxv <property-id> --replay <file>");
    std::process::exit(2);
  }
  run::install_panic_hook();
  vtime::install();
  hooks::install();
  let props = props::all();
  let Some(prop) = props.iter().find(|p| p.id == args[1]) else {
    eprintln!("unknown property {}", args[1]);
    std::process::exit(2);
  };
  let seed: u64 = std::env::var("VERIF_SEED").ok().and_then(|s| s.parse().ok()).unwrap_or(1);
  let code = if args[2] == "--replay" {
    run::replay_file(prop, &args[3])
  } else if args[2] == "--chunk" {
    // internal: one chunk of a large random part in its own process (run::random_part_chunked)
    let n = |i: usize| args.get(i).and_then(|s| s.parse::<u64>().ok()).unwrap_or(0);
    run::chunk_main(prop, n(3) as usize, n(4), n(5), args.get(6).map(|s| s.as_str()).unwrap_or("/dev/null"))
  } else if args[2] == "--find" {
    // debugging aid: rxv <ID> --find <label> [part]  - generate cases until one carries the label, save it as a replay file
    run::find_label(prop, &args[3], args.get(4).and_then(|s| s.parse().ok()).unwrap_or(0), seed)
  } else if args[2] == "--emit-corpus" {
    // seed corpus for the libFuzzer campaign: byte tapes from a fixed PRNG (xorshift) of the run's seed
    let dir = std::path::Path::new(&args[3]);
    let _ = std::fs::create_dir_all(dir);
    let mut x: u64 = seed.wrapping_mul(0x9e3779b97f4a7c15) | 1;
    for i in 0..48 {
      let len = 8 + (i * 4) % 160;
      let bytes: Vec<u8> = (0..len)
        .map(|_| {
          x ^= x << 13;
          x ^= x >> 7;
          x ^= x << 17;
          (x >> 24) as u8
        })
        .collect();
      let _ = std::fs::write(dir.join(format!("seed-{i:02}")), bytes);
    }
    0
  } else {
    let tier = match std::env::var("VERIF_TIER").ok().as_deref().or(Some(args[2].as_str())) {
      Some("thorough") => Tier::Thorough,
      _ => Tier::Quick,
    };
    let tier = if args[2] == "thorough" { Tier::Thorough } else if args[2] == "quick" { Tier::Quick } else { tier };
    run::check(prop, tier, seed)
  };
  std::process::exit(code);
}
