//! Universal item / error types and the fixed family of functions that
//! pipelines and the reference model share (they are *parameters* of the
//! operators under test, not the thing under test).
use serde_json::{json, Value as J};

#[derive(Clone, Debug, PartialEq, Eq, Hash, PartialOrd, Ord)]
pub enum V {
  I(i64),
  B(bool),
  P(Box<V>, Box<V>),
  L(Vec<V>),
  U,
}

#[derive(Clone, Debug, PartialEq, Eq, Hash, PartialOrd, Ord)]
pub struct E(pub u8);

/// a notification
#[derive(Clone, Debug, PartialEq, Eq, Hash)]
pub enum Ev {
  N(V),
  Er(E),
  C,
}

impl Ev {
  pub fn is_terminal(&self) -> bool {
    !matches!(self, Ev::N(_))
  }
}

pub fn pair(a: V, b: V) -> V {
  V::P(Box::new(a), Box::new(b))
}

/// total projection to an integer (used by every predicate / function)
pub fn to_i(v: &V) -> i64 {
  match v {
    V::I(n) => *n,
    V::B(b) => *b as i64,
    V::P(a, b) => to_i(a).wrapping_mul(7).wrapping_add(to_i(b)),
    V::L(xs) => xs
      .iter()
      .fold(xs.len() as i64, |acc, x| acc.wrapping_mul(3).wrapping_add(to_i(x))),
    V::U => 0,
  }
}

/// `average` works in f64 and rxRust multiplies by a reciprocal where the reference model divides: the two differ in the
/// last place. Inputs are folded into 0..4096 (sums stay exact) and the result is read in thousandths with a cut at
/// x.7: 1000*sum/n is never within 1/(10n) of such a cut for n < 625 (10000*sum/n is a multiple of 5), so both roundings
/// land on the same integer.
pub fn avg_in(v: &V) -> f64 {
  to_i(v).rem_euclid(4096) as f64
}
pub fn avg_out(x: f64) -> V {
  V::I((x * 1000.0 + 0.3).floor() as i64)
}

#[derive(Clone, Copy, Debug, PartialEq, Eq, Hash)]
pub enum Pred {
  Lt(i64),
  Eq(i64),
  Even,
  Mod3,
  Const(bool),
}
impl Pred {
  pub fn eval(&self, v: &V) -> bool {
    let n = to_i(v);
    match self {
      Pred::Lt(k) => n < *k,
      Pred::Eq(k) => n == *k,
      Pred::Even => n.rem_euclid(2) == 0,
      Pred::Mod3 => n.rem_euclid(3) == 0,
      Pred::Const(b) => *b,
    }
  }
}

#[derive(Clone, Copy, Debug, PartialEq, Eq, Hash)]
pub enum MapF {
  Id,
  Add(i64),
  Mod(i64),
  Dbl,
}
impl MapF {
  pub fn eval(&self, v: V) -> V {
    match self {
      MapF::Id => v,
      MapF::Add(k) => V::I(to_i(&v).wrapping_add(*k)),
      MapF::Mod(k) => V::I(to_i(&v).rem_euclid(*k)),
      MapF::Dbl => V::I(to_i(&v).wrapping_mul(2)),
    }
  }
}

/// filter_map function: keep even numbers, halved
pub fn fm_even_half(v: V) -> Option<V> {
  let n = to_i(&v);
  if n.rem_euclid(2) == 0 {
    Some(V::I(n / 2))
  } else {
    None
  }
}

#[derive(Clone, Copy, Debug, PartialEq, Eq, Hash)]
pub enum Fold {
  Add,
  Max,
  TwoAPlusB,
}
impl Fold {
  pub fn eval(&self, acc: V, v: V) -> V {
    let (a, b) = (to_i(&acc), to_i(&v));
    V::I(match self {
      Fold::Add => a.wrapping_add(b),
      Fold::Max => a.max(b),
      Fold::TwoAPlusB => a.wrapping_mul(2).wrapping_add(b),
    })
  }
}

#[derive(Clone, Copy, Debug, PartialEq, Eq, Hash)]
pub enum KeyF {
  Const,
  Id,
  Mod2,
  Mod3,
}
impl KeyF {
  pub fn eval(&self, v: &V) -> i64 {
    let n = to_i(v);
    match self {
      KeyF::Const => 0,
      KeyF::Id => n,
      KeyF::Mod2 => n.rem_euclid(2),
      KeyF::Mod3 => n.rem_euclid(3),
    }
  }
}

pub fn v_json(v: &V) -> J {
  match v {
    V::I(n) => json!(n),
    V::B(b) => json!(b),
    V::P(a, b) => json!({"pair":[v_json(a), v_json(b)]}),
    V::L(xs) => J::Array(xs.iter().map(v_json).collect()),
    V::U => json!("unit"),
  }
}
pub fn ev_json(e: &Ev) -> J {
  match e {
    Ev::N(v) => json!({"next": v_json(v)}),
    Ev::Er(e) => json!({"error": e.0}),
    Ev::C => json!("complete"),
  }
}
pub fn evs_json(es: &[Ev]) -> J {
  J::Array(es.iter().map(ev_json).collect())
}
pub fn ev_short(e: &Ev) -> String {
  match e {
    Ev::N(v) => format!("{}", v_short(v)),
    Ev::Er(e) => format!("E{}", e.0),
    Ev::C => "C".into(),
  }
}
pub fn v_short(v: &V) -> String {
  match v {
    V::I(n) => format!("{n}"),
    V::B(b) => format!("{b}"),
    V::P(a, b) => format!("({},{})", v_short(a), v_short(b)),
    V::L(xs) => format!("[{}]", xs.iter().map(v_short).collect::<Vec<_>>().join(",")),
    V::U => "()".into(),
  }
}
pub fn evs_short(es: &[Ev]) -> String {
  es.iter().map(ev_short).collect::<Vec<_>>().join(" ")
}
