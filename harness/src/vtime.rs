//! Virtual clock (installed through the public `NEW_TIMER_FN`) and `VSched`, a
//! scheduler that delegates to the library's own `LocalSpawner::schedule` (so the
//! real Remote / TaskHandle / delay code runs) while the harness owns *when* and
//! in *which order* tasks are polled.
use futures::executor::{LocalPool, LocalSpawner};
use futures::future::BoxFuture;
use rxrust::prelude::*;
use std::cell::RefCell;
use std::future::Future;
use std::pin::Pin;
use std::sync::atomic::{AtomicBool, AtomicUsize, Ordering};
use std::sync::{Arc, Mutex};
use std::task::{Context, Poll, Waker};
use std::time::Duration;

pub type TaskId = u64;

// ---------------------------------------------------------------- clock ----

pub struct Slot {
  fired: bool,
  waker: Option<Waker>,
  owner: Option<TaskId>,
}

struct TimerEnt {
  due: Duration,
  seq: u64,
  slot: Arc<Mutex<Slot>>,
}

#[derive(Default)]
pub struct ClockCore {
  /// number of timers fired so far
  pub fired: u64,
  now: Duration,
  timers: Vec<TimerEnt>,
  next_seq: u64,
  /// every duration asked from the timer function, in order
  pub requested: Vec<Duration>,
}

pub type SharedClock = Arc<Mutex<ClockCore>>;

thread_local! {
  static CLOCK: RefCell<SharedClock> = RefCell::new(Arc::new(Mutex::new(ClockCore::default())));
  static CURRENT: RefCell<Option<TaskId>> = RefCell::new(None);
}

pub fn clock() -> SharedClock {
  CLOCK.with(|c| c.borrow().clone())
}
pub fn set_clock(c: SharedClock) {
  CLOCK.with(|k| *k.borrow_mut() = c);
}
pub fn current_task() -> Option<TaskId> {
  CURRENT.with(|c| *c.borrow())
}

struct VTimer {
  slot: Arc<Mutex<Slot>>,
}
impl Future for VTimer {
  type Output = ();
  fn poll(self: Pin<&mut Self>, cx: &mut Context<'_>) -> Poll<()> {
    let mut s = self.slot.lock().unwrap();
    if s.fired {
      Poll::Ready(())
    } else {
      s.waker = Some(cx.waker().clone());
      s.owner = current_task();
      Poll::Pending
    }
  }
}

pub fn new_vtimer(dur: Duration) -> BoxFuture<'static, ()> {
  let clk = clock();
  let mut c = clk.lock().unwrap();
  c.requested.push(dur);
  let slot = Arc::new(Mutex::new(Slot { fired: dur.is_zero(), waker: None, owner: None }));
  if !dur.is_zero() {
    let seq = c.next_seq;
    c.next_seq += 1;
    let due = c.now + dur;
    c.timers.push(TimerEnt { due, seq, slot: slot.clone() });
  }
  Box::pin(VTimer { slot })
}

pub type BoxTimer = BoxFuture<'static, ()>;

/// a timer whose deadline is fixed at its first poll (not at creation)
pub fn new_vtimer_lazy(dur: Duration) -> BoxTimer {
  Box::pin(async move { new_vtimer(dur).await })
}

/// install the virtual timer (idempotent, process wide)
pub fn install() {
  let _ = NEW_TIMER_FN.set(new_vtimer as fn(Duration) -> BoxFuture<'static, ()>);
}

pub fn now() -> Duration {
  clock().lock().unwrap().now
}
pub fn total_firings() -> u64 {
  clock().lock().unwrap().fired
}
pub fn requested() -> Vec<Duration> {
  clock().lock().unwrap().requested.clone()
}

/// timers that somebody still waits for
pub fn pending_timers() -> usize {
  let clk = clock();
  let mut c = clk.lock().unwrap();
  c.timers.retain(|t| Arc::strong_count(&t.slot) > 1);
  c.timers.len()
}
pub fn next_due() -> Option<Duration> {
  let clk = clock();
  let mut c = clk.lock().unwrap();
  c.timers.retain(|t| Arc::strong_count(&t.slot) > 1);
  c.timers.iter().map(|t| t.due).min()
}

/// set the clock to `t` (>= now) and fire every timer due by then, in
/// (due, creation) order.  Returns the owners that were woken.
fn fire_until(t: Duration) -> Vec<Option<TaskId>> {
  let clk = clock();
  let mut fired = vec![];
  {
    let mut c = clk.lock().unwrap();
    if t > c.now {
      c.now = t;
    }
    let now = c.now;
    c.timers.retain(|t| Arc::strong_count(&t.slot) > 1);
    c.timers.sort_by_key(|t| (t.due, t.seq));
    let mut rest = vec![];
    for te in c.timers.drain(..) {
      if te.due <= now {
        fired.push(te.slot);
      } else {
        rest.push(te);
      }
    }
    c.timers = rest;
  }
  let mut owners = vec![];
  for slot in fired {
    let (w, o) = {
      let mut s = slot.lock().unwrap();
      s.fired = true;
      (s.waker.take(), s.owner)
    };
    clk.lock().unwrap().fired += 1;
    if let Some(w) = w {
      w.wake();
    }
    owners.push(o);
  }
  owners
}

// ------------------------------------------------------------- executor ----

#[derive(Clone, Copy, Debug, PartialEq, Eq, Hash)]
pub enum Mode {
  /// one shared LocalPool, run until stalled after every step (the library's local pool)
  Fifo,
  /// the same pool, but it only runs at explicit script steps (late executor)
  Lazy,
  /// one pool per task: any ready task may run next (k-worker pool model)
  AnyOrder,
}

pub struct TaskMeta {
  pub id: TaskId,
  pub polled: AtomicBool,
  pub retired: AtomicBool,
}

struct TaskEnt {
  meta: Arc<TaskMeta>,
  pool: Option<LocalPool>,
}

struct Exec {
  mode: Mode,
  fifo: Option<LocalPool>,
  spawner: LocalSpawner,
  tasks: Vec<TaskEnt>,
  ready: Vec<TaskId>,
  next_id: TaskId,
  metas: Vec<Arc<TaskMeta>>,
  /// (task id, virtual time of first poll)
  first_polls: Vec<(TaskId, Duration)>,
}

impl Exec {
  fn new(mode: Mode) -> Self {
    let pool = LocalPool::new();
    let spawner = pool.spawner();
    Exec {
      mode,
      fifo: Some(pool),
      spawner,
      tasks: vec![],
      ready: vec![],
      next_id: 0,
      metas: vec![],
      first_polls: vec![],
    }
  }
}

thread_local! {
  static EXEC: RefCell<Exec> = RefCell::new(Exec::new(Mode::Fifo));
}

pub static LIVE_TASKS_TOTAL: AtomicUsize = AtomicUsize::new(0);

/// wrapper recording first poll and retirement (drop) of a scheduled task
pub struct Tracked<F> {
  inner: Pin<Box<F>>,
  meta: Arc<TaskMeta>,
}
impl<F: Future> Future for Tracked<F> {
  type Output = F::Output;
  fn poll(mut self: Pin<&mut Self>, cx: &mut Context<'_>) -> Poll<F::Output> {
    if !self.meta.polled.swap(true, Ordering::SeqCst) {
      let id = self.meta.id;
      let t = now();
      let _ = EXEC.try_with(|e| {
        if let Ok(mut e) = e.try_borrow_mut() {
          e.first_polls.push((id, t));
        }
      });
    }
    self.inner.as_mut().poll(cx)
  }
}
impl<F> Drop for Tracked<F> {
  fn drop(&mut self) {
    self.meta.retired.store(true, Ordering::SeqCst);
  }
}

#[derive(Clone, Copy, Default)]
pub struct VSched;

impl<F> Scheduler<F> for VSched
where
  F: Future + 'static,
  LocalSpawner: Scheduler<Tracked<F>>,
{
  fn schedule(&self, task: F, delay: Option<Duration>) -> TaskHandle<F::Output> {
    let (id, mode, spawner) = EXEC.with(|e| {
      let mut e = e.borrow_mut();
      let id = e.next_id;
      e.next_id += 1;
      (id, e.mode, e.spawner.clone())
    });
    let meta = Arc::new(TaskMeta { id, polled: AtomicBool::new(false), retired: AtomicBool::new(false) });
    let tracked = Tracked { inner: Box::pin(task), meta: meta.clone() };
    match mode {
      Mode::Fifo | Mode::Lazy => {
        let h = spawner.schedule(tracked, delay);
        EXEC.with(|e| e.borrow_mut().metas.push(meta));
        h
      }
      Mode::AnyOrder => {
        let pool = LocalPool::new();
        let h = pool.spawner().schedule(tracked, delay);
        EXEC.with(|e| {
          let mut e = e.borrow_mut();
          e.metas.push(meta.clone());
          e.tasks.push(TaskEnt { meta, pool: Some(pool) });
          e.ready.push(id);
        });
        h
      }
    }
  }
}

/// fresh clock and executor for a new case
pub fn reset(mode: Mode) {
  install();
  // drop the old executor outside of the borrow (dropping tasks may run user drops)
  let old = EXEC.with(|e| std::mem::replace(&mut *e.borrow_mut(), Exec::new(mode)));
  drop(old);
  set_clock(Arc::new(Mutex::new(ClockCore::default())));
  CURRENT.with(|c| *c.borrow_mut() = None);
}

pub fn mode() -> Mode {
  EXEC.with(|e| e.borrow().mode)
}

/// tasks scheduled so far / not yet retired (dropped)
pub fn spawned_tasks() -> usize {
  EXEC.with(|e| e.borrow().metas.len())
}
pub fn live_tasks() -> usize {
  EXEC.with(|e| e.borrow().metas.iter().filter(|m| !m.retired.load(Ordering::SeqCst)).count())
}
pub fn first_polls() -> Vec<(TaskId, Duration)> {
  EXEC.with(|e| e.borrow().first_polls.clone())
}

/// number of tasks that may run now (AnyOrder only; Fifo/Lazy: unknown => 1 if any live)
pub fn ready_count() -> usize {
  EXEC.with(|e| {
    let e = e.borrow();
    match e.mode {
      Mode::AnyOrder => e.ready.len(),
      _ => 0,
    }
  })
}

pub fn mark_ready(id: TaskId) {
  EXEC.with(|e| {
    let mut e = e.borrow_mut();
    if e.mode == Mode::AnyOrder && !e.ready.contains(&id) && e.tasks.iter().any(|t| t.meta.id == id) {
      e.ready.push(id);
    }
  })
}

fn run_task(id: TaskId) {
  let pool = EXEC.with(|e| {
    let mut e = e.borrow_mut();
    e.ready.retain(|x| *x != id);
    e.tasks.iter_mut().find(|t| t.meta.id == id).and_then(|t| t.pool.take())
  });
  if let Some(mut pool) = pool {
    CURRENT.with(|c| *c.borrow_mut() = Some(id));
    pool.run_until_stalled();
    CURRENT.with(|c| *c.borrow_mut() = None);
    EXEC.with(|e| {
      let mut e = e.borrow_mut();
      if let Some(pos) = e.tasks.iter().position(|t| t.meta.id == id) {
        if e.tasks[pos].meta.retired.load(Ordering::SeqCst) {
          e.tasks.remove(pos);
          drop(pool);
        } else {
          e.tasks[pos].pool = Some(pool);
        }
      }
    });
  }
}

/// AnyOrder: run the `idx`-th ready task (one poll round). No-op otherwise.
pub fn run_ready(idx: usize) -> bool {
  let id = EXEC.with(|e| {
    let e = e.borrow();
    if e.mode == Mode::AnyOrder && idx < e.ready.len() {
      Some(e.ready[idx])
    } else {
      None
    }
  });
  match id {
    Some(id) => {
      run_task(id);
      true
    }
    None => false,
  }
}

/// run the executor until nothing can make progress (FIFO order)
pub fn run_until_stalled() {
  let m = mode();
  match m {
    Mode::Fifo | Mode::Lazy => {
      let pool = EXEC.with(|e| e.borrow_mut().fifo.take());
      if let Some(mut pool) = pool {
        pool.run_until_stalled();
        EXEC.with(|e| e.borrow_mut().fifo = Some(pool));
      }
    }
    Mode::AnyOrder => {
      let mut guard = 0;
      while run_ready(0) {
        guard += 1;
        if guard > 100_000 {
          break;
        }
      }
    }
  }
}

/// fire timers due at the current instant (after a manual clock change) and
/// register the woken tasks as ready
fn fire_and_mark(t: Duration) -> usize {
  let owners = fire_until(t);
  let n = owners.len();
  for o in owners.into_iter().flatten() {
    mark_ready(o);
  }
  n
}

/// move to the next pending timer's due time and fire everything due then.
/// Returns false when no timer is pending.
pub fn fire_next_timer() -> bool {
  match next_due() {
    Some(d) => {
      fire_and_mark(d);
      true
    }
    None => false,
  }
}

/// advance the clock by `dt`; timers fire in due order.  With `prompt` the
/// executor runs (FIFO) after each distinct due time, as a live executor would.
pub fn advance(dt: Duration, prompt: bool) {
  let target = now() + dt;
  let mut rounds = 0usize;
  loop {
    match next_due() {
      Some(d) if d <= target => {
        // no generator asks for more than a few thousand firings within one advance: a task that re-arms its timer
        // with a zero (or ever shrinking) delay would spin here for ever - make it a verdict instead of a hang
        rounds += 1;
        if rounds > 200_000 {
          panic!("verif: timer storm: more than 200000 timer firings within one clock advance of {} ticks", dt.as_nanos());
        }
        fire_and_mark(d);
        if prompt {
          run_until_stalled();
        }
      }
      _ => break,
    }
  }
  fire_and_mark(target);
  if prompt {
    run_until_stalled();
  }
}

/// run + fire timers until neither tasks nor timers remain or `max_rounds`
/// timer firings happened.  Returns true when quiescent (no pending timer).
pub fn drain(max_rounds: usize) -> bool {
  drain_count(max_rounds).0
}
/// like `drain`; also returns how many timer firings were needed
pub fn drain_count(max_rounds: usize) -> (bool, usize) {
  run_until_stalled();
  for i in 0..max_rounds {
    if !fire_next_timer() {
      return (true, i);
    }
    run_until_stalled();
  }
  (next_due().is_none(), max_rounds)
}

thread_local! {
  static UNIT: std::cell::Cell<u64> = const { std::cell::Cell::new(1) };
}
/// length of one tick in ns for the cases run on this thread from now on (`run_one` puts it back to 1 before every
/// case). With a unit of 0.7 s or 1 s + 1 ns every duration of a case crosses the second boundary in an uneven way,
/// so a unit truncation (`as_secs`, whole-second slicing) shows as an event that is off the tick grid / too early.
/// Cases that use hour-scale `_at` instants keep the unit at 1 (HOUR / TOL are tick counts at 1 ns).
pub fn set_unit(ns: u64) {
  UNIT.with(|u| u.set(ns.max(1)));
}
pub fn unit() -> u64 {
  UNIT.with(|u| u.get())
}
/// one tick of virtual time = 1 ns by default (so that every unit-truncation of a small
/// delay - as_micros, as_millis, as_secs - changes the behaviour)
pub fn ticks(n: u64) -> Duration {
  Duration::from_nanos(n.saturating_mul(unit()))
}
pub fn as_ticks(d: Duration) -> u64 {
  (d.as_nanos() / unit() as u128) as u64
}
/// one hour / ten minutes in ticks
pub const HOUR: u64 = 3_600_000_000_000;
pub const TOL: u64 = 600_000_000_000;
