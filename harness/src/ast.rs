//! Operator AST shared by the pipeline builders (local / threads) and the
//! reference model, plus the generators that draw ASTs from a choice source.
use crate::choice::{Choices, ChoicesExt};
use crate::value::*;

#[derive(Clone, Debug, PartialEq, Eq, Hash)]
pub enum Src {
  Of(V),
  OfOption(Option<V>),
  OfResult(Result<V, E>),
  OfFn(V),
  Start(V),
  FromIter(Vec<V>),
  Repeat(V, usize),
  Empty,
  Never,
  Throw(E),
  /// synchronous `create`: events sent through cloned handles (handle index, event),
  /// including events after the first terminal
  Create(Vec<(u8, Ev)>),
  /// `defer(|| inner)`
  Defer(Box<Node>),
  /// hot input #i backed by a Subject
  Hot(usize),
  /// hot input #i backed by `create` whose Subscriber handle the harness keeps
  HotCreate(usize),
  /// hot input #i backed by a BehaviorSubject with the given initial value
  Behavior(usize, V),
  Interval(u64),
  Timer(V, u64),
  /// `from_future` over a poll-counting future that is ready at its first poll
  FutureReady(V),
  /// `from_future_result` over a cloneable future that is ready at its first poll and counts its polls
  FutureResultReady(Result<V, E>),
  /// `from_iter` over a bounded iterator 0..n that counts how many items were pulled
  CountingIter(usize),
  /// `from_stream` over a stream of n ready items that counts its polls
  CountingStream(usize),
  /// `from_stream` over a stream that is never ready (a channel whose sender is alive but silent): every poll is
  /// counted and answers Pending, nothing ever wakes the task
  SilentStream,
  /// `from_stream_result` over a stream of n ready `Ok` items that counts its polls
  CountingTryStream(usize),
}

#[derive(Clone, Copy, Debug, PartialEq, Eq, Hash)]
pub enum Edge {
  Leading,
  Trailing,
  All,
}

#[derive(Clone, Debug, PartialEq, Eq, Hash)]
pub enum Un {
  Map(MapF),
  MapTo(V),
  Filter(Pred),
  FilterMap,
  Tap,
  Take(usize),
  Skip(usize),
  TakeWhile(Pred),
  TakeWhileInclusive(Pred),
  SkipWhile(Pred),
  TakeLast(usize),
  SkipLast(usize),
  First,
  FirstOr(V),
  Last,
  LastOr(V),
  ElementAt(usize),
  IgnoreElements,
  StartWith(Vec<V>),
  DefaultIfEmpty(V),
  Scan(Fold, V),
  Reduce(Fold, V),
  Count,
  Sum,
  Min,
  Max,
  Average,
  Distinct,
  DistinctKey(KeyF),
  DistinctUntilChanged,
  DistinctUntilKeyChanged(KeyF),
  Pairwise,
  BufferWithCount(usize),
  Contains(V),
  All(Pred),
  Collect,
  OnErrorMap(u8),
  // ---- beyond the C03 catalogue
  /// harness instrumentation: `defer(|| {live += 1; inner}).finalize(|| live -= 1)`
  TrackLive,
  OnError,
  OnComplete,
  Finalize,
  Share,
  BoxIt,
  GroupByFlatten(KeyF),
  CompleteStatus,
  ObserveOn,
  Delay(u64),
  DelaySubscription(u64),
  /// `delay_at(Instant::now() + h hours)` (h < 0: an instant in the past)
  DelayAt(i32),
  DelaySubscriptionAt(i32),
  SubscribeOn,
  Debounce(u64),
  ThrottleTime(u64, Edge),
  Throttle(Edge),
  BufferWithTime(u64),
  BufferWithCountAndTime(usize, u64),
}

#[derive(Clone, Copy, Debug, PartialEq, Eq, Hash)]
pub enum Bin {
  Merge,
  Zip,
  CombineLatest,
  WithLatestFrom,
  TakeUntil,
  SkipUntil,
  Sample,
  Buffer,
}

#[derive(Clone, Copy, Debug, PartialEq, Eq, Hash)]
pub enum Flat {
  MergeAll(usize),
  ConcatAll,
  Flatten,
  FlatMap,
  ConcatMap,
}

#[derive(Clone, Debug, PartialEq, Eq, Hash)]
pub enum Node {
  Src(Src),
  /// operator, use-the-_threads-form flag, input
  Un(Un, bool, Box<Node>),
  Bin(Bin, bool, Box<Node>, Box<Node>),
  /// outer emits items; item i selects `inners[to_i(item) mod len]`
  Flat(Flat, Box<Node>, Vec<Node>),
}

impl Node {
  pub fn un(op: Un, n: Node) -> Node {
    Node::Un(op, false, Box::new(n))
  }
  pub fn depth(&self) -> usize {
    match self {
      Node::Src(Src::Defer(n)) => 1 + n.depth(),
      Node::Src(_) => 0,
      Node::Un(_, _, n) => 1 + n.depth(),
      Node::Bin(_, _, a, b) => 1 + a.depth().max(b.depth()),
      Node::Flat(_, o, is) => 1 + is.iter().map(|n| n.depth()).max().unwrap_or(0).max(o.depth()),
    }
  }
  pub fn visit(&self, f: &mut dyn FnMut(&Node)) {
    f(self);
    match self {
      Node::Src(Src::Defer(n)) => n.visit(f),
      Node::Src(_) => {}
      Node::Un(_, _, n) => n.visit(f),
      Node::Bin(_, _, a, b) => {
        a.visit(f);
        b.visit(f)
      }
      Node::Flat(_, o, is) => {
        o.visit(f);
        is.iter().for_each(|n| n.visit(f))
      }
    }
  }
  /// set every `_threads` flag
  pub fn with_flags(&self, t: bool) -> Node {
    match self {
      Node::Src(Src::Defer(n)) => Node::Src(Src::Defer(Box::new(n.with_flags(t)))),
      Node::Src(s) => Node::Src(s.clone()),
      Node::Un(o, _, n) => Node::Un(o.clone(), t, Box::new(n.with_flags(t))),
      Node::Bin(o, _, a, b) => Node::Bin(*o, t, Box::new(a.with_flags(t)), Box::new(b.with_flags(t))),
      Node::Flat(o, a, is) => Node::Flat(*o, Box::new(a.with_flags(t)), is.iter().map(|n| n.with_flags(t)).collect()),
    }
  }
  pub fn uses_scheduler(&self) -> bool {
    let mut r = false;
    self.visit(&mut |n| match n {
      Node::Src(Src::Interval(_)) | Node::Src(Src::Timer(..)) => r = true,
      Node::Un(op, _, _) => {
        if matches!(
          op,
          Un::ObserveOn
            | Un::Delay(_)
            | Un::DelaySubscription(_)
            | Un::DelayAt(_)
            | Un::DelaySubscriptionAt(_)
            | Un::SubscribeOn
            | Un::Debounce(_)
            | Un::ThrottleTime(..)
            | Un::Throttle(_)
            | Un::BufferWithTime(_)
            | Un::BufferWithCountAndTime(..)
        ) {
          r = true
        }
      }
      _ => {}
    });
    r
  }
  pub fn short(&self) -> String {
    match self {
      Node::Src(s) => format!("{s:?}"),
      Node::Un(o, t, n) => format!("{}.{:?}{}", n.short(), o, if *t { "#t" } else { "" }),
      Node::Bin(o, t, a, b) => format!("{:?}{}({}, {})", o, if *t { "#t" } else { "" }, a.short(), b.short()),
      Node::Flat(o, a, is) => {
        format!("{:?}({} -> [{}])", o, a.short(), is.iter().map(|n| n.short()).collect::<Vec<_>>().join(" | "))
      }
    }
  }
}

// ------------------------------------------------------------ generators ---

pub fn gen_v(c: &mut dyn Choices, alphabet: usize) -> V {
  V::I(c.pick(alphabet) as i64)
}
pub fn gen_vs(c: &mut dyn Choices, max_len: usize, alphabet: usize) -> Vec<V> {
  let n = c.pick(max_len + 1);
  (0..n).map(|_| gen_v(c, alphabet)).collect()
}
pub fn gen_e(c: &mut dyn Choices) -> E {
  E(1 + c.pick(3) as u8)
}
pub fn gen_pred(c: &mut dyn Choices) -> Pred {
  match c.pick(6) {
    0 => Pred::Lt(2),
    1 => Pred::Lt(c.pick(4) as i64),
    2 => Pred::Eq(c.pick(4) as i64),
    3 => Pred::Even,
    4 => Pred::Mod3,
    _ => Pred::Const(c.flag()),
  }
}
pub fn gen_mapf(c: &mut dyn Choices) -> MapF {
  match c.pick(4) {
    0 => MapF::Add(1),
    1 => MapF::Mod(2 + c.pick(2) as i64),
    2 => MapF::Dbl,
    _ => MapF::Id,
  }
}
pub fn gen_fold(c: &mut dyn Choices) -> Fold {
  *c.one_of(&[Fold::Add, Fold::Max, Fold::TwoAPlusB])
}
pub fn gen_keyf(c: &mut dyn Choices) -> KeyF {
  *c.one_of(&[KeyF::Mod2, KeyF::Mod3, KeyF::Id, KeyF::Const])
}

/// a count parameter in 0..=len+1 (boundary values included); `min` lets callers exclude 0.
/// The same pick also offers (at its high end, so that recorded picks keep their meaning) counts far
/// outside that range: a count larger than any input, thresholds, usize::MAX - counts are documented as
/// upper bounds, so these are ordinary inputs.
pub fn gen_count(c: &mut dyn Choices, len_hint: usize, min: usize) -> usize {
  const BIG: [usize; 8] = [usize::MAX, usize::MAX / 2, 65536, 65537, 255, 32, 33, 0];
  let range = len_hint + 2 - min.min(len_hint + 1);
  // one extra alternative per ~2 ordinary ones would starve the ordinary range: add just one slot per big value
  let k = c.pick(range + BIG.len());
  if k < range {
    min + k
  } else {
    let b = BIG[k - range];
    if b == 0 {
      len_hint + 33
    } else {
      b
    }
  }
}

/// `base + pick(span)`, with a few much larger alternatives at the high end of the same pick (so recorded tapes keep
/// their meaning): thresholds, capacities and narrow counters in the code under test sit at 32, 64, 128, 256, ...
pub fn pick_size(c: &mut dyn Choices, base: usize, span: usize, bigs: &[usize]) -> usize {
  let k = c.pick(span + bigs.len());
  if k < span {
    base + k
  } else {
    bigs[k - span]
  }
}

/// a long item sequence from a handful of picks (keeps tapes short and shrinkable):
/// constant, counting, cycling, or pseudo-random over the alphabet
pub fn gen_long_items(c: &mut dyn Choices, n: usize, alphabet: usize) -> Vec<V> {
  let a = alphabet.max(1) as i64;
  match c.pick(5) {
    0 => (0..n).map(|i| V::I(i as i64 % a)).collect(),
    1 => (0..n).map(|i| V::I(i as i64)).collect(),
    2 => {
      let k = c.pick(alphabet.max(1)) as i64;
      (0..n).map(|_| V::I(k)).collect()
    }
    3 => (0..n).map(|i| V::I((n - i) as i64)).collect(),
    _ => {
      let mut x: u64 = 1 + c.pick(1 << 16) as u64;
      (0..n)
        .map(|_| {
          x = x.wrapping_mul(6364136223846793005).wrapping_add(1442695040888963407);
          V::I(((x >> 33) % a as u64) as i64)
        })
        .collect()
    }
  }
}

pub const N_C03_UN: usize = 37;
/// the single-input operators named by C03
pub fn gen_un_c03(c: &mut dyn Choices, len_hint: usize, alphabet: usize) -> Un {
  match c.pick(N_C03_UN) {
    0 => Un::Map(gen_mapf(c)),
    1 => Un::MapTo(gen_v(c, alphabet)),
    2 => Un::Filter(gen_pred(c)),
    3 => Un::FilterMap,
    4 => Un::Tap,
    5 => Un::Take(gen_count(c, len_hint, 0)),
    6 => Un::Skip(gen_count(c, len_hint, 0)),
    7 => Un::TakeWhile(gen_pred(c)),
    8 => Un::TakeWhileInclusive(gen_pred(c)),
    9 => Un::SkipWhile(gen_pred(c)),
    10 => Un::TakeLast(gen_count(c, len_hint, 0)),
    11 => Un::SkipLast(gen_count(c, len_hint, 0)),
    12 => Un::First,
    13 => Un::FirstOr(gen_v(c, alphabet)),
    14 => Un::Last,
    15 => Un::LastOr(gen_v(c, alphabet)),
    16 => Un::ElementAt(gen_count(c, len_hint, 0)),
    17 => Un::IgnoreElements,
    18 => Un::StartWith(gen_vs(c, 2, alphabet)),
    19 => Un::DefaultIfEmpty(gen_v(c, alphabet)),
    20 => Un::Scan(gen_fold(c), gen_v(c, alphabet)),
    21 => Un::Reduce(gen_fold(c), gen_v(c, alphabet)),
    22 => Un::Count,
    23 => Un::Sum,
    24 => Un::Min,
    25 => Un::Max,
    26 => Un::Average,
    27 => Un::Distinct,
    28 => Un::DistinctKey(gen_keyf(c)),
    29 => Un::DistinctUntilChanged,
    30 => Un::DistinctUntilKeyChanged(gen_keyf(c)),
    31 => Un::Pairwise,
    32 => Un::BufferWithCount(gen_count(c, len_hint, 1)),
    33 => Un::Contains(gen_v(c, alphabet)),
    34 => Un::All(gen_pred(c)),
    35 => Un::Collect,
    _ => Un::OnErrorMap(1 + c.pick(2) as u8),
  }
}

/// compact variant of `gen_un_c03` for bounded-exhaustive enumeration of operator *pairs*: the same 37
/// operators, function families cut down to the members that differ on {0,1,2}, counts 0..=len+1
pub fn gen_un_compact(c: &mut dyn Choices, len_hint: usize) -> Un {
  fn pred(c: &mut dyn Choices) -> Pred {
    *c.one_of(&[Pred::Lt(1), Pred::Eq(1), Pred::Even, Pred::Const(true), Pred::Const(false)])
  }
  fn cnt(c: &mut dyn Choices, len_hint: usize, min: usize) -> usize {
    min + c.pick(len_hint + 2 - min)
  }
  fn fold(c: &mut dyn Choices) -> Fold {
    *c.one_of(&[Fold::Add, Fold::TwoAPlusB])
  }
  fn keyf(c: &mut dyn Choices) -> KeyF {
    *c.one_of(&[KeyF::Mod2, KeyF::Id, KeyF::Const])
  }
  match c.pick(N_C03_UN) {
    0 => Un::Map(*c.one_of(&[MapF::Add(1), MapF::Mod(2), MapF::Id])),
    1 => Un::MapTo(gen_v(c, 2)),
    2 => Un::Filter(pred(c)),
    3 => Un::FilterMap,
    4 => Un::Tap,
    5 => Un::Take(cnt(c, len_hint, 0)),
    6 => Un::Skip(cnt(c, len_hint, 0)),
    7 => Un::TakeWhile(pred(c)),
    8 => Un::TakeWhileInclusive(pred(c)),
    9 => Un::SkipWhile(pred(c)),
    10 => Un::TakeLast(cnt(c, len_hint, 0)),
    11 => Un::SkipLast(cnt(c, len_hint, 0)),
    12 => Un::First,
    13 => Un::FirstOr(gen_v(c, 2)),
    14 => Un::Last,
    15 => Un::LastOr(gen_v(c, 2)),
    16 => Un::ElementAt(cnt(c, len_hint, 0)),
    17 => Un::IgnoreElements,
    18 => Un::StartWith(gen_vs(c, 1, 2)),
    19 => Un::DefaultIfEmpty(gen_v(c, 2)),
    20 => Un::Scan(fold(c), gen_v(c, 2)),
    21 => Un::Reduce(fold(c), gen_v(c, 2)),
    22 => Un::Count,
    23 => Un::Sum,
    24 => Un::Min,
    25 => Un::Max,
    26 => Un::Average,
    27 => Un::Distinct,
    28 => Un::DistinctKey(keyf(c)),
    29 => Un::DistinctUntilChanged,
    30 => Un::DistinctUntilKeyChanged(keyf(c)),
    31 => Un::Pairwise,
    32 => Un::BufferWithCount(cnt(c, len_hint, 1)),
    33 => Un::Contains(gen_v(c, 2)),
    34 => Un::All(pred(c)),
    35 => Un::Collect,
    _ => Un::OnErrorMap(1 + c.pick(2) as u8),
  }
}

/// a synchronous `create` script: items, terminals through cloned handles, and
/// (when `post` is set) events after the first terminal
pub fn gen_create_script(c: &mut dyn Choices, max_len: usize, alphabet: usize, post: bool) -> Vec<(u8, Ev)> {
  let n = c.pick(max_len + 1);
  let mut out = vec![];
  let mut terminated = false;
  for _ in 0..n {
    let h = c.pick(2) as u8;
    let ev = match c.pick(6) {
      0 => Ev::C,
      1 => Ev::Er(gen_e(c)),
      _ => Ev::N(gen_v(c, alphabet)),
    };
    let t = ev.is_terminal();
    out.push((h, ev));
    if t {
      if terminated || !post {
        break;
      }
      terminated = true;
      if !c.flag() {
        break;
      }
    }
  }
  out
}

/// cold synchronous sources of C03
pub fn gen_cold_src(c: &mut dyn Choices, max_len: usize, alphabet: usize) -> Src {
  match c.pick(12) {
    0 => Src::Of(gen_v(c, alphabet)),
    1 => Src::OfOption(if c.flag() { Some(gen_v(c, alphabet)) } else { None }),
    2 => Src::OfResult(if c.flag() { Ok(gen_v(c, alphabet)) } else { Err(gen_e(c)) }),
    3 => Src::OfFn(gen_v(c, alphabet)),
    4 => Src::Start(gen_v(c, alphabet)),
    5 => Src::Repeat(gen_v(c, alphabet), c.pick(max_len + 1)),
    6 => Src::Empty,
    7 => Src::Never,
    8 => Src::Throw(gen_e(c)),
    9 => Src::Create(gen_create_script(c, max_len + 1, alphabet, true)),
    _ => Src::FromIter(gen_vs(c, max_len, alphabet)),
  }
}

// ------------------------------------------------------ pipeline cases -----

#[derive(Clone, Copy, Debug, PartialEq, Eq, Hash)]
pub enum SchedMode {
  Fifo,
  Lazy,
  AnyOrder,
}

#[derive(Clone, Copy, Debug, PartialEq, Eq, Hash)]
pub enum IKind {
  Subject,
  Create,
  Behavior,
}

#[derive(Clone, Debug, PartialEq, Eq, Hash)]
pub enum Step {
  Emit(usize, Ev),
  /// advance the virtual clock by n ticks
  Advance(u64),
  /// advance the clock and fire the due timers, but do not run the executor
  /// (the woken tasks run after the next emission)
  AdvanceNoRun(u64),
  /// jump to the next pending timer and fire it
  FireNext,
  /// run the executor until stalled (FIFO order)
  Run,
  /// AnyOrder: run the k-th ready task (mod number of ready tasks)
  RunReady(usize),
  Unsub,
  DropGuard,
}

#[derive(Clone, Debug, PartialEq, Eq, Hash)]
pub struct PCase {
  pub node: Node,
  pub kinds: Vec<IKind>,
  pub script: Vec<Step>,
  pub mode: SchedMode,
  pub threads: bool,
}

pub struct GenCfg {
  pub n_inputs: usize,
  pub alphabet: usize,
  pub time_ops: bool,
  pub flat_ops: bool,
  pub share_ops: bool,
  /// every hot input may be used by several leaves
  pub reuse_inputs: bool,
}

fn gen_leaf(c: &mut dyn Choices, cfg: &GenCfg, kinds: &[IKind], next_input: &mut usize) -> Node {
  let hot_ok = cfg.reuse_inputs || *next_input < cfg.n_inputs;
  if hot_ok && c.pick(4) != 0 {
    let i = if cfg.reuse_inputs { c.pick(cfg.n_inputs) } else { *next_input };
    *next_input += 1;
    Node::Src(match kinds[i] {
      IKind::Subject => Src::Hot(i),
      IKind::Create => Src::HotCreate(i),
      IKind::Behavior => Src::Behavior(i, V::I(0)),
    })
  } else if cfg.time_ops && c.pick(5) == 0 {
    if c.flag() {
      Node::Src(Src::Interval(1 + c.pick(3) as u64))
    } else {
      Node::Src(Src::Timer(gen_v(c, cfg.alphabet), c.pick(4) as u64))
    }
  } else {
    Node::Src(gen_cold_src(c, 3, cfg.alphabet))
  }
}

pub fn gen_edge(c: &mut dyn Choices) -> Edge {
  *c.one_of(&[Edge::Leading, Edge::Trailing, Edge::All])
}

/// unary operators outside the C03 catalogue
fn gen_un_other(c: &mut dyn Choices, cfg: &GenCfg) -> Un {
  let n_time = if cfg.time_ops { 9 } else { 0 };
  let k = c.pick(7 + n_time);
  match k {
    0 => Un::OnError,
    1 => Un::OnComplete,
    2 => Un::Finalize,
    3 => {
      if cfg.share_ops {
        Un::Share
      } else {
        Un::BoxIt
      }
    }
    4 => Un::BoxIt,
    5 => Un::GroupByFlatten(gen_keyf(c)),
    6 => Un::CompleteStatus,
    7 => Un::ObserveOn,
    8 => Un::Delay(c.pick(4) as u64),
    9 => Un::DelaySubscription(c.pick(3) as u64),
    10 => Un::SubscribeOn,
    11 => Un::Debounce(1 + c.pick(3) as u64),
    12 => Un::ThrottleTime(1 + c.pick(3) as u64, gen_edge(c)),
    13 => Un::Throttle(gen_edge(c)),
    14 => Un::BufferWithTime(1 + c.pick(3) as u64),
    _ => Un::BufferWithCountAndTime(1 + c.pick(3), 1 + c.pick(3) as u64),
  }
}

pub fn gen_bin(c: &mut dyn Choices) -> Bin {
  *c.one_of(&[Bin::Merge, Bin::Zip, Bin::CombineLatest, Bin::WithLatestFrom, Bin::TakeUntil, Bin::SkipUntil, Bin::Sample, Bin::Buffer])
}

pub fn gen_flat(c: &mut dyn Choices, k: usize) -> Flat {
  match c.pick(5) {
    0 => {
      // (0 added as the last alternative: recorded tapes keep their meaning) a limit of 0 parks every inner observable
      let v = c.pick(k + 2);
      Flat::MergeAll(if v == k + 1 { 0 } else { 1 + v })
    }
    1 => Flat::ConcatAll,
    2 => Flat::Flatten,
    3 => Flat::FlatMap,
    _ => Flat::ConcatMap,
  }
}

/// a pipeline over the whole catalogue
pub fn gen_node(c: &mut dyn Choices, depth: usize, cfg: &GenCfg, kinds: &[IKind], next_input: &mut usize) -> Node {
  if depth == 0 {
    return gen_leaf(c, cfg, kinds, next_input);
  }
  match c.pick(10) {
    0 => gen_leaf(c, cfg, kinds, next_input),
    1..=3 => {
      let inner = gen_node(c, depth - 1, cfg, kinds, next_input);
      Node::Un(gen_un_c03(c, 3, cfg.alphabet), c.pick(4) == 0, Box::new(inner))
    }
    4..=5 => {
      let inner = gen_node(c, depth - 1, cfg, kinds, next_input);
      Node::Un(gen_un_other(c, cfg), c.pick(3) == 0, Box::new(inner))
    }
    6..=8 => {
      let a = gen_node(c, depth - 1, cfg, kinds, next_input);
      let b = gen_node(c, depth - 1, cfg, kinds, next_input);
      Node::Bin(gen_bin(c), c.pick(3) == 0, Box::new(a), Box::new(b))
    }
    _ => {
      if !cfg.flat_ops {
        let inner = gen_node(c, depth - 1, cfg, kinds, next_input);
        return Node::Un(gen_un_c03(c, 3, cfg.alphabet), false, Box::new(inner));
      }
      let outer = gen_node(c, depth - 1, cfg, kinds, next_input);
      let k = 1 + c.pick(3);
      let inners = (0..k).map(|_| gen_node(c, depth - 1, cfg, kinds, next_input)).collect();
      Node::Flat(gen_flat(c, k), Box::new(outer), inners)
    }
  }
}

pub fn gen_kinds(c: &mut dyn Choices, n: usize, behavior: bool) -> Vec<IKind> {
  (0..n)
    .map(|_| match c.pick(if behavior { 4 } else { 3 }) {
      0 | 1 => IKind::Subject,
      2 => IKind::Create,
      _ => IKind::Behavior,
    })
    .collect()
}

/// an event script over `n_inputs` hot inputs: inputs keep emitting after their
/// own terminal, terminals are repeated, and (with `timed`) the clock and the
/// executor are driven as well
pub fn gen_script(c: &mut dyn Choices, n_inputs: usize, max_len: usize, alphabet: usize, timed: bool, mode: SchedMode) -> Vec<Step> {
  gen_script_plain(c, n_inputs, max_len, alphabet, timed, mode)
}

/// long variant of a script: its non-terminal steps repeated 6..15 times, then the original script as tail.
/// (Called with picks that come *after* every other pick of the case, so that recorded tapes keep their meaning.)
pub fn lengthen_script(c: &mut dyn Choices, script: &[Step]) -> Vec<Step> {
  let block: Vec<Step> = script.iter().filter(|s| !matches!(s, Step::Emit(_, e) if e.is_terminal())).take(5).cloned().collect();
  let reps = pick_size(c, 6, 10, &[30, 60]);
  let mut s = vec![];
  for _ in 0..reps {
    s.extend(block.iter().cloned());
  }
  s.extend(script.iter().cloned());
  s
}

fn gen_script_plain(c: &mut dyn Choices, n_inputs: usize, max_len: usize, alphabet: usize, timed: bool, mode: SchedMode) -> Vec<Step> {
  let n = c.pick(max_len + 1);
  let mut s = vec![];
  for _ in 0..n {
    let k = c.pick(if timed { 10 } else { 6 });
    s.push(match k {
      0 => Step::Emit(c.pick(n_inputs), Ev::C),
      1 => Step::Emit(c.pick(n_inputs), Ev::Er(gen_e(c))),
      2..=5 => Step::Emit(c.pick(n_inputs), Ev::N(gen_v(c, alphabet))),
      6 => Step::Advance(1 + c.pick(3) as u64),
      7 => Step::FireNext,
      8 => {
        if mode == SchedMode::AnyOrder {
          Step::RunReady(c.pick(4))
        } else {
          Step::Run
        }
      }
      _ => {
        if mode == SchedMode::AnyOrder {
          Step::RunReady(c.pick(4))
        } else {
          Step::Advance(1)
        }
      }
    });
  }
  s
}

pub fn step_short(s: &Step) -> String {
  match s {
    Step::Emit(i, e) => format!("in{}:{}", i, ev_short(e)),
    Step::Advance(n) => format!("+{n}t"),
    Step::AdvanceNoRun(n) => format!("+{n}t(no-run)"),
    Step::FireNext => "fire".into(),
    Step::Run => "run".into(),
    Step::RunReady(k) => format!("run#{k}"),
    Step::Unsub => "UNSUB".into(),
    Step::DropGuard => "DROPGUARD".into(),
  }
}
pub fn script_short(s: &[Step]) -> String {
  s.iter().map(step_short).collect::<Vec<_>>().join(" ")
}


// ------------------------------------------------------ time / async sources (C08)

#[derive(Clone, Debug, PartialEq, Eq, Hash)]
pub enum SEv {
  Item(V),
  Fail(E),
  /// Pending once, waking itself
  Pend,
  /// Pending until the virtual clock has advanced by this many ticks
  PendUntil(u64),
}

#[derive(Clone, Debug, PartialEq, Eq, Hash)]
pub enum TSrc {
  Interval(u64),
  /// interval_at(now + at_h hours, period_h hours)
  IntervalAt(i32, u64),
  Timer(V, u64),
  TimerAt(V, i32),
  /// from_future: self-waking pending polls, optional wait on the clock, value
  Future(usize, Option<u64>, V),
  FutureResult(usize, Option<u64>, Result<V, E>),
  Stream(Vec<SEv>),
  StreamResult(Vec<SEv>),
}

// ------------------------------------------------------ composite histories (C17b)

#[derive(Clone, Debug, PartialEq, Eq, Hash)]
pub enum COp {
  /// append a fresh probe subscription
  Append,
  /// clone handle h
  CloneHandle(usize),
  /// unsubscribe through handle h (consumes it)
  Unsub(usize),
  IsClosed(usize),
  /// child c finishes on its own (its is_closed() becomes true)
  CloseChild(usize),
  Retain(usize),
  /// append a child whose own `unsubscribe()` appends a further subscription to (a clone of) the same composite:
  /// an addition made from inside the composite's teardown
  AppendReentrant,
}

// ------------------------------------------------------ share / publish histories (C11)

#[derive(Clone, Debug, PartialEq, Eq, Hash)]
pub enum ShSrc {
  /// cold synchronous source emitting these events at subscription
  Cold(Vec<Ev>),
  Hot,
  Interval(u64),
}

#[derive(Clone, Debug, PartialEq, Eq, Hash)]
pub enum ShOp {
  Subscribe,
  Unsub(usize),
  Emit(Ev),
  Advance(u64),
  Connect,
}
