// This file is `include!`d twice: in `crate::local` (BoxOp / Subject / Rc) and in
// `crate::threads` (BoxOpThreads / SubjectThreads / Arc).  The including module
// defines: Bx, Subj, BObs, Subr, BSub, Sh<T>, sh(), lock!, two!, sendonly!, IS_THREADS.

fn inf(e: Infallible) -> E {
  match e {}
}
type InfFn = fn(Infallible) -> E;

#[inline]
pub fn bx<T: BoxIt<Bx>>(t: T) -> Bx {
  t.box_it()
}


/// everything a pipeline is wired to
#[derive(Clone)]
pub struct Env {
  pub hot: Vec<Subj>,
  pub slots: Vec<Sh<Vec<Subr>>>,
  pub beh: Vec<BehaviorSubject<V, Subj>>,
  pub counters: Sh<Counters>,
  pub statuses: Sh<Vec<std::sync::Arc<rxrust::ops::complete_status::CompleteStatus>>>,
}

impl Env {
  pub fn new(n_inputs: usize) -> Env {
    Env {
      hot: (0..n_inputs).map(|_| Subj::default()).collect(),
      slots: (0..n_inputs).map(|_| sh(Vec::new())).collect(),
      beh: (0..n_inputs).map(|_| BehaviorSubject::<V, Subj>::new(V::I(0))).collect(),
      counters: sh(Counters::default()),
      statuses: sh(Vec::new()),
    }
  }
}

/// `Instant::now() + h` hours; h < 0 gives an instant in the past (or `now` on a
/// machine whose uptime is shorter than that)
pub fn instant_at(h: i32) -> Instant {
  let now = Instant::now();
  let d = Duration::from_secs(3600 * h.unsigned_abs() as u64);
  if h >= 0 {
    now + d
  } else {
    now.checked_sub(d).unwrap_or(now)
  }
}

impl Env {
  /// break the reference cycles of a finished case (a subject holds its subscribers, whose closures may hold
  /// clones of this Env and so of the subject again): otherwise every case leaks a little
  pub fn teardown(&self) {
    for h in &self.hot {
      h.clone().unsubscribe();
    }
    for b in &self.beh {
      b.clone().unsubscribe();
    }
    for s in &self.slots {
      let hs: Vec<Subr> = std::mem::take(&mut *lock!(s));
      for h in hs {
        h.unsubscribe();
      }
    }
    lock!(self.statuses).clear();
  }
}

fn edge(e: Edge) -> ThrottleEdge {
  match e {
    Edge::Leading => ThrottleEdge::leading(),
    Edge::Trailing => ThrottleEdge::tailing(),
    Edge::All => ThrottleEdge::all(),
  }
}


/// the C03 catalogue operators, shared by the plain and the cloneable builder.
/// Evaluates to Ok(boxed) or Err(source) when `op` is not in the catalogue.
macro_rules! build_un_c03 {
  ($bx:ident, $s:expr, $op:expr, $env:expr) => {
    'blk: {
      let s = $s;
      #[allow(unreachable_code)]
      Ok(match $op {
          Un::Map(f) => {
            let (f, cn) = (*f, $env.counters.clone());
            $bx(s.map(move |v| {
              lock!(cn).fn_calls += 1;
              f.eval(v)
            }))
          }
          Un::MapTo(v) => $bx(s.map_to(v.clone())),
          Un::Filter(p) => {
            let (p, cn) = (*p, $env.counters.clone());
            $bx(s.filter(move |v: &V| {
              lock!(cn).fn_calls += 1;
              p.eval(v)
            }))
          }
          Un::FilterMap => $bx(s.filter_map(fm_even_half)),
          Un::Tap => {
            let cn = $env.counters.clone();
            $bx(s.tap(move |_: &V| lock!(cn).tap_calls += 1))
          }
          Un::Take(n) => $bx(s.take(*n)),
          Un::Skip(n) => $bx(s.skip(*n)),
          Un::TakeWhile(p) => {
            let p = *p;
            $bx(s.take_while(move |v: &V| p.eval(v)))
          }
          Un::TakeWhileInclusive(p) => {
            let p = *p;
            $bx(s.take_while_inclusive(move |v: &V| p.eval(v)))
          }
          Un::SkipWhile(p) => {
            let p = *p;
            $bx(s.skip_while(move |v: &V| p.eval(v)))
          }
          Un::TakeLast(n) => $bx(s.take_last(*n)),
          Un::SkipLast(n) => $bx(s.skip_last(*n)),
          Un::First => $bx(s.first()),
          Un::FirstOr(v) => $bx(s.first_or(v.clone())),
          Un::Last => $bx(s.last()),
          Un::LastOr(v) => $bx(s.last_or(v.clone())),
          Un::ElementAt(n) => $bx(s.element_at(*n)),
          Un::IgnoreElements => $bx(s.ignore_elements()),
          Un::StartWith(vs) => $bx(s.start_with(vs.clone())),
          Un::DefaultIfEmpty(v) => $bx(s.default_if_empty(v.clone())),
          Un::Scan(f, seed) => {
            let (f, cn) = (*f, $env.counters.clone());
            $bx(s.scan_initial(seed.clone(), move |a: V, v: V| {
              lock!(cn).fn_calls += 1;
              f.eval(a, v)
            }))
          }
          Un::Reduce(f, seed) => {
            let f = *f;
            $bx(s.reduce_initial(seed.clone(), move |a: V, v: V| f.eval(a, v)))
          }
          Un::Count => $bx(s.count().map(|n: usize| V::I(n as i64))),
          Un::Sum => $bx(s.map(|v: V| std::num::Wrapping(to_i(&v))).sum().map(|w: std::num::Wrapping<i64>| V::I(w.0))),
          Un::Min => $bx(s.min()),
          Un::Max => $bx(s.max()),
          Un::Average => $bx(
            s.map(|v: V| avg_in(&v))
              .average()
              .map(avg_out),
          ),
          Un::Distinct => $bx(s.distinct()),
          Un::DistinctKey(k) => {
            let k = *k;
            $bx(s.distinct_key(move |v: &V| k.eval(v)))
          }
          Un::DistinctUntilChanged => $bx(s.distinct_until_changed()),
          Un::DistinctUntilKeyChanged(k) => {
            let k = *k;
            $bx(s.distinct_until_key_changed(move |v: &V| k.eval(v)))
          }
          Un::Pairwise => $bx(s.pairwise().map(|(a, b): (V, V)| pair(a, b))),
          Un::BufferWithCount(n) => $bx(s.buffer_with_count(*n).map(V::L)),
          Un::Contains(v) => $bx(s.contains(v.clone()).map(V::B)),
          Un::All(p) => {
            let p = *p;
            $bx(s.all(move |v: V| p.eval(&v)).map(V::B))
          }
          Un::Collect => $bx(s.collect::<Vec<V>>().map(V::L)),
          Un::OnErrorMap(k) => {
            let k = *k;
            $bx(s.on_error_map(move |e: E| E(e.0.wrapping_add(k))))
          }
        _ => break 'blk Err(s),
      })
    }
  };
}

pub fn build_src(s: &Src, env: &Env) -> Bx {
  match s {
    Src::Of(v) => bx(observable::of(v.clone()).on_error_map(inf as InfFn)),
    Src::OfOption(o) => bx(observable::of_option(o.clone()).on_error_map(inf as InfFn)),
    Src::OfResult(r) => bx(observable::of_result(r.clone())),
    Src::OfFn(v) => {
      let (v, cn) = (v.clone(), env.counters.clone());
      bx(
        observable::of_fn(move || {
          lock!(cn).src_calls += 1;
          v
        })
        .on_error_map(inf as InfFn),
      )
    }
    Src::Start(v) => {
      let (v, cn) = (v.clone(), env.counters.clone());
      bx(
        observable::start(move || {
          lock!(cn).src_calls += 1;
          v
        })
        .on_error_map(inf as InfFn),
      )
    }
    Src::FromIter(vs) => bx(observable::from_iter(vs.clone()).on_error_map(inf as InfFn)),
    Src::Repeat(v, n) => bx(observable::repeat(v.clone(), *n).on_error_map(inf as InfFn)),
    Src::Empty => bx(ObservableExt::<V, Infallible>::on_error_map(observable::empty(), inf as InfFn)),
    Src::Never => bx(observable::never().map(|_: ()| V::U).on_error_map(inf as InfFn)),
    Src::Throw(e) => bx(observable::throw(e.clone()).map(|_: ()| V::U)),
    Src::Create(script) => {
      let (script, cn) = (script.clone(), env.counters.clone());
      bx(observable::create(move |s: Subr| {
        lock!(cn).src_calls += 1;
        let mut hs = [s.clone(), s];
        for (h, ev) in script {
          let h = (h as usize) % 2;
          match ev {
            Ev::N(v) => hs[h].next(v),
            Ev::Er(e) => hs[h].clone().error(e),
            Ev::C => hs[h].clone().complete(),
          }
        }
      }))
    }
    Src::Defer(inner) => {
      let (inner, env2) = ((**inner).clone(), env.clone());
      bx(observable::defer(move || {
        {
          let mut c = lock!(env2.counters);
          c.src_calls += 1;
          c.defer_steps.push(crate::stamp::get());
          c.defer_vts.push(as_ticks(crate::vtime::now()));
        }
        build(&inner, &env2)
      }))
    }
    Src::Hot(i) => bx(env.hot[*i].clone()),
    Src::HotCreate(i) => {
      let slot = env.slots[*i].clone();
      bx(observable::create(move |s: Subr| {
        lock!(slot).push(s);
      }))
    }
    Src::Behavior(i, _) => bx(env.beh[*i].clone()),
    Src::Interval(p) => {
      bx(observable::interval(ticks(*p), VSched).map(|n: usize| V::I(n as i64)).on_error_map(inf as InfFn))
    }
    Src::Timer(v, d) => bx(observable::timer(v.clone(), ticks(*d), VSched).on_error_map(inf as InfFn)),
    Src::FutureReady(v) => bx(
      observable::from_future(CountingFut { v: Some(v.clone()), cn: env.counters.clone() }, VSched).on_error_map(inf as InfFn),
    ),
    Src::FutureResultReady(r) => bx(observable::from_future_result(CountingTryFut { r: Some(r.clone()), cn: env.counters.clone() }, VSched)),
    Src::CountingIter(n) => {
      let cn = env.counters.clone();
      let it = (0..*n as i64).map(move |i| {
        lock!(cn).iter_pulls += 1;
        V::I(i)
      });
      bx(observable::from_iter(it).on_error_map(inf as InfFn))
    }
    Src::CountingStream(n) => {
      let st = CountingStream { next: 0, n: *n as i64, cn: env.counters.clone() };
      bx(observable::from_stream(st, VSched).on_error_map(inf as InfFn))
    }
    Src::CountingTryStream(n) => {
      let st = CountingTryStream(CountingStream { next: 0, n: *n as i64, cn: env.counters.clone() });
      bx(observable::from_stream_result(st, VSched))
    }
    Src::SilentStream => bx(observable::from_stream(SilentStream { cn: env.counters.clone() }, VSched).on_error_map(inf as InfFn)),
  }
}

/// the fallible twin: n ready `Ok` items, counts its polls
pub struct CountingTryStream(CountingStream);
impl futures::Stream for CountingTryStream {
  type Item = Result<V, E>;
  fn poll_next(mut self: std::pin::Pin<&mut Self>, cx: &mut std::task::Context<'_>) -> std::task::Poll<Option<Result<V, E>>> {
    std::pin::Pin::new(&mut self.0).poll_next(cx).map(|o| o.map(Ok))
  }
}

/// a stream that is never ready and counts its polls
pub struct SilentStream {
  cn: Sh<Counters>,
}
impl futures::Stream for SilentStream {
  type Item = V;
  fn poll_next(self: std::pin::Pin<&mut Self>, _: &mut std::task::Context<'_>) -> std::task::Poll<Option<V>> {
    lock!(self.cn).stream_polls += 1;
    std::task::Poll::Pending
  }
}

/// a stream of n ready items that counts its polls
pub struct CountingStream {
  next: i64,
  n: i64,
  cn: Sh<Counters>,
}
impl futures::Stream for CountingStream {
  type Item = V;
  fn poll_next(mut self: std::pin::Pin<&mut Self>, _: &mut std::task::Context<'_>) -> std::task::Poll<Option<V>> {
    lock!(self.cn).stream_polls += 1;
    if self.next < self.n {
      self.next += 1;
      std::task::Poll::Ready(Some(V::I(self.next - 1)))
    } else {
      std::task::Poll::Ready(None)
    }
  }
}

/// the fallible twin (for `from_future_result`)
#[derive(Clone)]
pub struct CountingTryFut {
  r: Option<Result<V, E>>,
  cn: Sh<Counters>,
}
impl std::future::Future for CountingTryFut {
  type Output = Result<V, E>;
  fn poll(mut self: std::pin::Pin<&mut Self>, _: &mut std::task::Context<'_>) -> std::task::Poll<Result<V, E>> {
    lock!(self.cn).fut_polls += 1;
    std::task::Poll::Ready(self.r.take().expect("future polled after completion"))
  }
}

/// a future that is ready at its first poll and counts its polls
#[derive(Clone)]
pub struct CountingFut {
  v: Option<V>,
  cn: Sh<Counters>,
}
impl std::future::Future for CountingFut {
  type Output = V;
  fn poll(mut self: std::pin::Pin<&mut Self>, _: &mut std::task::Context<'_>) -> std::task::Poll<V> {
    lock!(self.cn).fut_polls += 1;
    std::task::Poll::Ready(self.v.take().expect("future polled after completion"))
  }
}

#[inline]
pub fn cbx<T: BoxIt<CBx>>(t: T) -> CBx {
  t.box_it()
}

/// cloneable build of a cold chain (C13); None when a node has no cloneable form
pub fn build_clone(node: &Node, env: &Env) -> Option<CBx> {
  match node {
    Node::Src(s) => Some(match s {
      Src::Of(v) => cbx(observable::of(v.clone()).on_error_map(inf as InfFn)),
      Src::OfOption(o) => cbx(observable::of_option(o.clone()).on_error_map(inf as InfFn)),
      Src::OfResult(r) => cbx(observable::of_result(r.clone())),
      Src::OfFn(v) => {
        let (v, cn) = (v.clone(), env.counters.clone());
        cbx(
          observable::of_fn(move || {
            lock!(cn).src_calls += 1;
            v
          })
          .on_error_map(inf as InfFn),
        )
      }
      Src::Start(v) => {
        let (v, cn) = (v.clone(), env.counters.clone());
        cbx(
          observable::start(move || {
            lock!(cn).src_calls += 1;
            v
          })
          .on_error_map(inf as InfFn),
        )
      }
      Src::FromIter(vs) => cbx(observable::from_iter(vs.clone()).on_error_map(inf as InfFn)),
      Src::Repeat(v, n) => cbx(observable::repeat(v.clone(), *n).on_error_map(inf as InfFn)),
      Src::Empty => cbx(ObservableExt::<V, Infallible>::on_error_map(observable::empty(), inf as InfFn)),
      Src::Never => cbx(observable::never().map(|_: ()| V::U).on_error_map(inf as InfFn)),
      Src::Throw(e) => cbx(observable::throw(e.clone()).map(|_: ()| V::U)),
      Src::Create(script) => {
        let (script, cn) = (script.clone(), env.counters.clone());
        cbx(observable::create(move |s: Subr| {
          lock!(cn).src_calls += 1;
          let mut hs = [s.clone(), s];
          for (h, ev) in script {
            let h = (h as usize) % 2;
            match ev {
              Ev::N(v) => hs[h].next(v),
              Ev::Er(e) => hs[h].clone().error(e),
              Ev::C => hs[h].clone().complete(),
            }
          }
        }))
      }
      Src::Defer(inner) => {
        let (inner, env2) = ((**inner).clone(), env.clone());
        build_clone(&inner, env)?; // must itself be cloneable
        cbx(observable::defer(move || {
          lock!(env2.counters).src_calls += 1;
          build_clone(&inner, &env2).unwrap()
        }))
      }
      Src::FutureReady(v) => cbx(
        observable::from_future(CountingFut { v: Some(v.clone()), cn: env.counters.clone() }, VSched).on_error_map(inf as InfFn),
      ),
      Src::FutureResultReady(r) => cbx(observable::from_future_result(CountingTryFut { r: Some(r.clone()), cn: env.counters.clone() }, VSched)),
      Src::Interval(p) => cbx(observable::interval(ticks(*p), VSched).map(|n: usize| V::I(n as i64)).on_error_map(inf as InfFn)),
      _ => return None,
    }),
    Node::Un(op, tf, inner) => {
      let s = build_clone(inner, env)?;
      let s = match build_un_c03!(cbx, s, op, env) {
        Ok(b) => return Some(b),
        Err(s) => s,
      };
      let tf = *tf;
      let _ = tf;
      Some(match op {
        Un::Finalize => {
          let cn = env.counters.clone();
          let f = move || {
            let mut c = lock!(cn);
            c.finalize_calls += 1;
            c.finalize_marks.push((crate::stamp::get(), crate::stamp::evseq()));
          };
          two_c!(tf, s.finalize(f), s.finalize_threads(f))
        }
        Un::BoxIt => cbx(cbx(s)),
        Un::ObserveOn => two_c!(tf, s.observe_on(VSched), s.observe_on_threads(VSched)),
        Un::Delay(d) => two_c!(tf, s.delay(ticks(*d), VSched), s.delay_threads(ticks(*d), VSched)),
        Un::DelaySubscription(d) => cbx(s.delay_subscription(ticks(*d), VSched)),
        Un::SubscribeOn => cbx(s.subscribe_on(VSched)),
        Un::Debounce(d) => cbx(s.debounce(ticks(*d), VSched)),
        Un::Throttle(e) => cbx(s.throttle(|v: &V| ticks(1 + to_i(v).rem_euclid(3) as u64), edge(*e), VSched)),
        Un::BufferWithTime(d) => cbx(s.buffer_with_time(ticks(*d), VSched).map(V::L)),
        Un::BufferWithCountAndTime(n, d) => cbx(s.buffer_with_count_and_time(*n, ticks(*d), VSched).map(V::L)),
        _ => return None,
      })
    }
    Node::Bin(op, tf, a, b) => {
      let (a, b) = (build_clone(a, env)?, build_clone(b, env)?);
      let tf = *tf;
      let _ = tf;
      fn p2((x, y): (V, V)) -> V {
        pair(x, y)
      }
      Some(match op {
        Bin::Merge => two_c!(tf, a.merge(b), a.merge_threads(b)),
        Bin::Zip => two_c!(tf, a.zip(b).map(p2), a.zip_threads(b).map(p2)),
        Bin::CombineLatest => two_c!(
          tf,
          a.combine_latest(b, |x: V, y: V| (x, y)).map(p2),
          a.combine_latest_threads(b, |x: V, y: V| (x, y)).map(p2)
        ),
        Bin::WithLatestFrom => two_c!(tf, a.with_latest_from(b).map(p2), a.with_latest_from_threads(b).map(p2)),
        Bin::TakeUntil => two_c!(tf, a.take_until(b), a.take_until_threads(b)),
        Bin::SkipUntil => two_c!(tf, a.skip_until(b), a.skip_until_threads(b)),
        Bin::Sample => two_c!(tf, a.sample(b), a.sample_threads(b)),
        Bin::Buffer => cbx(a.buffer(b.map(|_: V| ())).map(V::L)),
      })
    }
    _ => None,
  }
}

/// C13 (overlap): subscribe clone i of one built pipeline at virtual time starts[i],
/// unsubscribe it `horizon` ticks later; returns each subscription's trace with times
/// relative to its own start, and the counters at the end
pub fn exec_overlap(node: &Node, starts: &[u64], horizon: u64) -> Option<(Vec<Vec<(u64, Ev)>>, Counters)> {
  use crate::vtime;
  vtime::reset(vtime::Mode::Fifo);
  crate::stamp::set(0);
  let env = Env::new(1);
  let p = build_clone(node, &env)?;
  // timeline of (time, is_stop, index)
  let mut evs: Vec<(u64, bool, usize)> = vec![];
  for (i, s) in starts.iter().enumerate() {
    evs.push((*s, false, i));
    evs.push((*s + horizon, true, i));
  }
  evs.sort();
  let mut probes: Vec<Option<Probe>> = vec![None; starts.len()];
  let mut subs: Vec<Option<BSub>> = (0..starts.len()).map(|_| None).collect();
  let mut now = 0u64;
  for (t, stop, i) in evs {
    if t > now {
      vtime::advance(ticks(t - now), true);
      now = t;
    }
    if stop {
      if let Some(s) = subs[i].take() {
        s.unsubscribe();
      }
    } else {
      let probe = Probe::new();
      probes[i] = Some(probe.clone());
      subs[i] = Some(p.clone().actual_subscribe(probe));
      vtime::run_until_stalled();
    }
  }
  vtime::run_until_stalled();
  let traces = probes
    .into_iter()
    .enumerate()
    .map(|(i, p)| p.map(|p| p.recs().into_iter().map(|r| (r.vt.saturating_sub(starts[i]), r.ev)).collect()).unwrap_or_default())
    .collect();
  let c = lock!(env.counters).clone();
  for s in subs.into_iter().flatten() {
    s.unsubscribe();
  }
  env.teardown();
  Some((traces, c))
}

/// probe that subscribes another clone of the pipeline from inside its first `next`
pub struct NestProbe {
  pub outer: Probe,
  pub nested: Option<(CBx, Probe)>,
}
impl Observer<V, E> for NestProbe {
  fn next(&mut self, v: V) {
    self.outer.next(v);
    if let Some((p, probe)) = self.nested.take() {
      let _ = p.actual_subscribe(probe);
    }
  }
  fn error(self, e: E) {
    self.outer.error(e)
  }
  fn complete(self) {
    self.outer.complete()
  }
  fn is_finished(&self) -> bool {
    false
  }
}

pub struct ColdRun {
  pub counters_after_build: Counters,
  pub counters_end: Counters,
  /// one trace per successive subscription
  pub traces: Vec<Vec<Ev>>,
  pub nested: Option<Vec<Ev>>,
}

/// C13: build once, clone, subscribe `n` clones successively (the first one
/// optionally subscribing a further clone from inside its first callback)
pub fn exec_cold(node: &Node, n: usize, nested: bool) -> Option<ColdRun> {
  crate::vtime::reset(crate::vtime::Mode::Fifo);
  crate::stamp::set(crate::stamp::AT_SUBSCRIBE);
  let env = Env::new(1);
  let p = build_clone(node, &env)?;
  let counters_after_build = lock!(env.counters).clone();
  let mut traces = vec![];
  let mut nested_probe = None;
  for i in 0..n {
    let probe = Probe::new();
    let c = p.clone();
    if i == 0 && nested {
      let np = Probe::new();
      nested_probe = Some(np.clone());
      let _ = c.actual_subscribe(NestProbe { outer: probe.clone(), nested: Some((p.clone(), np)) });
    } else {
      let _ = c.actual_subscribe(probe.clone());
    }
    crate::vtime::run_until_stalled();
    traces.push(probe.events());
  }
  let counters_end = lock!(env.counters).clone();
  env.teardown();
  Some(ColdRun { counters_after_build, counters_end, traces, nested: nested_probe.map(|p| p.events()) })
}

// ------------------------------------------------------------- group_by ----

pub struct GroupProbe {
  log: Sh<Vec<(i64, usize, Ev)>>,
  /// 0: subscribe every group; 1: leave groups with key % 3 == 0 without a subscriber;
  /// 2: subscribe groups with an odd key through take(1)
  policy: u8,
}
pub struct TagProbe {
  key: i64,
  log: Sh<Vec<(i64, usize, Ev)>>,
}
impl Observer<V, E> for TagProbe {
  fn next(&mut self, v: V) {
    lock!(self.log).push((self.key, crate::stamp::get(), Ev::N(v)))
  }
  fn error(self, e: E) {
    lock!(self.log).push((self.key, crate::stamp::get(), Ev::Er(e)))
  }
  fn complete(self) {
    lock!(self.log).push((self.key, crate::stamp::get(), Ev::C))
  }
  fn is_finished(&self) -> bool {
    false
  }
}
impl Observer<rxrust::ops::group_by::KeyObservable<i64, Subj>, E> for GroupProbe {
  fn next(&mut self, g: rxrust::ops::group_by::KeyObservable<i64, Subj>) {
    let key = g.key;
    // the stream of groups is logged under key -1; the item is the group's key
    lock!(self.log).push((-1, crate::stamp::get(), Ev::N(V::I(key))));
    let probe = TagProbe { key, log: self.log.clone() };
    match self.policy {
      1 if key.rem_euclid(3) == 0 => {}
      2 if key.rem_euclid(2) == 1 => {
        let _ = g.take(1).actual_subscribe(probe);
      }
      _ => {
        let _ = g.actual_subscribe(probe);
      }
    }
  }
  fn error(self, e: E) {
    lock!(self.log).push((-1, crate::stamp::get(), Ev::Er(e)))
  }
  fn complete(self) {
    lock!(self.log).push((-1, crate::stamp::get(), Ev::C))
  }
  fn is_finished(&self) -> bool {
    false
  }
}

/// C20: run group_by over a cold (`create`) or hot (Subject) source with a probe
/// attached to each group as it is announced; returns the global log
/// (group key | -1 for the stream of groups, step, notification)
pub fn exec_group_by(hot: bool, script: &[Ev], key: KeyF, policy: u8) -> Vec<(i64, usize, Ev)> {
  crate::vtime::reset(crate::vtime::Mode::Fifo);
  crate::stamp::set(crate::stamp::AT_SUBSCRIBE);
  let env = Env::new(1);
  let log = sh(Vec::new());
  let src = if hot {
    Node::Src(Src::Hot(0))
  } else {
    Node::Src(Src::Create(script.iter().map(|e| (0u8, e.clone())).collect()))
  };
  let s = build(&src, &env);
  let _sub = s.group_by::<_, _, Subj>(move |v: &V| key.eval(v)).actual_subscribe(GroupProbe { log: log.clone(), policy });
  if hot {
    for (k, ev) in script.iter().enumerate() {
      crate::stamp::set(k);
      emit(&env, InputKind::Subject, 0, ev);
    }
  }
  let r = lock!(log).clone();
  env.teardown();
  r
}

/// `hot source . group_by(key) . take(n)` with a probe attached to every announced group
pub fn exec_group_by_take(create_handle: bool, script: &[Ev], key: KeyF, n: usize) -> Vec<(i64, usize, Ev)> {
  crate::vtime::reset(crate::vtime::Mode::Fifo);
  crate::stamp::set(crate::stamp::AT_SUBSCRIBE);
  let env = Env::new(1);
  let log = sh(Vec::new());
  let src = Node::Src(if create_handle { Src::HotCreate(0) } else { Src::Hot(0) });
  let s = build(&src, &env);
  fn take_groups<S>(groups: S, n: usize) -> rxrust::ops::take::TakeOp<S>
  where
    S: ObservableExt<rxrust::ops::group_by::KeyObservable<i64, Subj>, E>,
  {
    groups.take(n)
  }
  let _sub = take_groups(s.group_by::<_, _, Subj>(move |v: &V| key.eval(v)), n).actual_subscribe(GroupProbe { log: log.clone(), policy: 0 });
  for (k, ev) in script.iter().enumerate() {
    crate::stamp::set(k);
    emit(&env, if create_handle { InputKind::Create } else { InputKind::Subject }, 0, ev);
  }
  let r = lock!(log).clone();
  env.teardown();
  r
}

pub fn build(node: &Node, env: &Env) -> Bx {
  match node {
    Node::Src(s) => build_src(s, env),
    Node::Un(Un::TrackLive, _, inner) => {
      let (inner, env2, cn, cn2) = ((**inner).clone(), env.clone(), env.counters.clone(), env.counters.clone());
      let done = sh(false);
      let done2 = done.clone();
      let d = TrackOp {
        source: observable::defer(move || {
          {
            let mut c = lock!(cn);
            c.live += 1;
            c.track_subscribes += 1;
            c.max_live = c.max_live.max(c.live);
          }
          build(&inner, &env2)
        }),
        cn: env.counters.clone(),
        done,
      };
      // unsubscription path (terminals are counted by TrackObs *before* they are forwarded)
      let f = move || {
        let mut d = lock!(done2);
        if !*d {
          *d = true;
          lock!(cn2).live -= 1;
        }
      };
      sendonly!(bx(d.finalize(f)), bx(d.finalize_threads(f)))
    }
    Node::Un(op, tf, inner) => {
      let s = build(inner, env);
      let tf = *tf;
      let _ = tf;
      let s = match build_un_c03!(bx, s, op, env) {
        Ok(b) => return b,
        Err(s) => s,
      };
      match op {
        // (C03 catalogue handled by build_un_c03!)
        Un::Map(_) | Un::MapTo(_) | Un::Filter(_) | Un::FilterMap | Un::Tap | Un::Take(_) | Un::Skip(_) | Un::TakeWhile(_)
        | Un::TakeWhileInclusive(_) | Un::SkipWhile(_) | Un::TakeLast(_) | Un::SkipLast(_) | Un::First | Un::FirstOr(_) | Un::Last
        | Un::LastOr(_) | Un::ElementAt(_) | Un::IgnoreElements | Un::StartWith(_) | Un::DefaultIfEmpty(_) | Un::Scan(..)
        | Un::Reduce(..) | Un::Count | Un::Sum | Un::Min | Un::Max | Un::Average | Un::Distinct | Un::DistinctKey(_)
        | Un::DistinctUntilChanged | Un::DistinctUntilKeyChanged(_) | Un::Pairwise | Un::BufferWithCount(_) | Un::Contains(_)
        | Un::All(_) | Un::Collect | Un::OnErrorMap(_) => unreachable!(),
        Un::TrackLive => unreachable!(),
        Un::OnError => {
          let cn = env.counters.clone();
          bx(s.on_error(move |_e: E| lock!(cn).on_error_calls += 1).on_error_map(inf as InfFn))
        }
        Un::OnComplete => {
          let cn = env.counters.clone();
          bx(s.on_complete(move || lock!(cn).on_complete_calls += 1))
        }
        Un::Finalize => {
          let cn = env.counters.clone();
          let f = move || {
            let mut c = lock!(cn);
            c.finalize_calls += 1;
            c.finalize_marks.push((crate::stamp::get(), crate::stamp::evseq()));
          };
          two!(tf, s.finalize(f), s.finalize_threads(f))
        }
        Un::Share => sendonly!(bx(s.share()), bx(s.share_threads())),
        Un::BoxIt => bx(bx(s)),
        Un::GroupByFlatten(k) => {
          let k = *k;
          sendonly!(
            bx(s.group_by::<_, _, Subj>(move |v: &V| k.eval(v)).flat_map(|g| g)),
            bx(s.group_by::<_, _, Subj>(move |v: &V| k.eval(v)).flat_map_threads(|g| g))
          )
        }
        Un::CompleteStatus => {
          let (o, st) = s.complete_status();
          lock!(env.statuses).push(st);
          bx(o)
        }
        Un::ObserveOn => two!(tf, s.observe_on(VSched), s.observe_on_threads(VSched)),
        Un::Delay(d) => two!(tf, s.delay(ticks(*d), VSched), s.delay_threads(ticks(*d), VSched)),
        Un::DelaySubscription(d) => bx(s.delay_subscription(ticks(*d), VSched)),
        Un::DelayAt(h) => two!(tf, s.delay_at(instant_at(*h), VSched), s.delay_at_threads(instant_at(*h), VSched)),
        Un::DelaySubscriptionAt(h) => bx(s.delay_subscription_at(instant_at(*h), VSched)),
        Un::SubscribeOn => bx(s.subscribe_on(VSched)),
        Un::Debounce(d) => bx(s.debounce(ticks(*d), VSched)),
        Un::ThrottleTime(d, e) => bx(s.throttle_time(ticks(*d), edge(*e), VSched)),
        Un::Throttle(e) => bx(s.throttle(|v: &V| ticks(1 + to_i(v).rem_euclid(3) as u64), edge(*e), VSched)),
        Un::BufferWithTime(d) => bx(s.buffer_with_time(ticks(*d), VSched).map(V::L)),
        Un::BufferWithCountAndTime(n, d) => bx(s.buffer_with_count_and_time(*n, ticks(*d), VSched).map(V::L)),
      }
    }
    Node::Bin(op, tf, a, b) => {
      let (a, b) = (build(a, env), build(b, env));
      let tf = *tf;
      let _ = tf;
      fn p2((x, y): (V, V)) -> V {
        pair(x, y)
      }
      match op {
        Bin::Merge => two!(tf, a.merge(b), a.merge_threads(b)),
        Bin::Zip => two!(tf, a.zip(b).map(p2), a.zip_threads(b).map(p2)),
        Bin::CombineLatest => two!(
          tf,
          a.combine_latest(b, |x: V, y: V| (x, y)).map(p2),
          a.combine_latest_threads(b, |x: V, y: V| (x, y)).map(p2)
        ),
        Bin::WithLatestFrom => two!(tf, a.with_latest_from(b).map(p2), a.with_latest_from_threads(b).map(p2)),
        Bin::TakeUntil => two!(tf, a.take_until(b), a.take_until_threads(b)),
        Bin::SkipUntil => two!(tf, a.skip_until(b), a.skip_until_threads(b)),
        Bin::Sample => two!(tf, a.sample(b), a.sample_threads(b)),
        Bin::Buffer => bx(a.buffer(b.map(|_: V| ())).map(V::L)),
      }
    }
    Node::Flat(op, outer, inners) => {
      let o = build(outer, env);
      let (inners, env2) = (inners.clone(), env.clone());
      let n = inners.len().max(1) as i64;
      let sel = move |v: V| -> Bx {
        let i = to_i(&v).rem_euclid(n) as usize;
        build(&inners[i], &env2)
      };
      match op {
        Flat::MergeAll(k) => sendonly!(bx(o.map(sel).merge_all(*k)), bx(o.map(sel).merge_all_threads(*k))),
        Flat::ConcatAll => sendonly!(bx(o.map(sel).concat_all()), bx(o.map(sel).concat_all_threads())),
        Flat::Flatten => sendonly!(bx(o.map(sel).flatten()), bx(o.map(sel).flatten_threads())),
        Flat::FlatMap => sendonly!(bx(o.flat_map(sel)), bx(o.flat_map_threads(sel))),
        Flat::ConcatMap => sendonly!(bx(o.concat_map(sel)), bx(o.concat_map_threads(sel))),
      }
    }
  }
}

/// subscription tracker: an inner observable stops counting as subscribed the
/// moment it delivers its terminal (before the terminal is forwarded downstream)
pub struct TrackOp<S> {
  source: S,
  cn: Sh<Counters>,
  done: Sh<bool>,
}
pub struct TrackObs<O> {
  o: O,
  cn: Sh<Counters>,
  done: Sh<bool>,
}
impl<O> TrackObs<O> {
  fn finish(&self) {
    let mut d = lock!(self.done);
    if !*d {
      *d = true;
      lock!(self.cn).live -= 1;
    }
  }
}
impl<O: Observer<V, E>> Observer<V, E> for TrackObs<O> {
  fn next(&mut self, v: V) {
    self.o.next(v)
  }
  fn error(self, e: E) {
    self.finish();
    self.o.error(e)
  }
  fn complete(self) {
    self.finish();
    self.o.complete()
  }
  fn is_finished(&self) -> bool {
    self.o.is_finished()
  }
}
impl<S, O> Observable<V, E, O> for TrackOp<S>
where
  O: Observer<V, E>,
  S: Observable<V, E, TrackObs<O>>,
{
  type Unsub = S::Unsub;
  fn actual_subscribe(self, o: O) -> Self::Unsub {
    self.source.actual_subscribe(TrackObs { o, cn: self.cn, done: self.done })
  }
}
impl<S> ObservableExt<V, E> for TrackOp<S> {}

// ------------------------------------------------------------- probe -------


#[derive(Clone)]
pub struct Probe {
  pub log: Sh<Vec<Rec>>,
  /// when set, the counters are copied into `snap` the moment a terminal arrives
  pub cn: Option<Sh<Counters>>,
  pub snap: Sh<Option<Counters>>,
  /// feedback: on receiving `I(n)` with n among the triggers the subscriber itself sends `I(n + 5000)` into hot input 0
  /// (a consumer that feeds its source from inside its callback); every such emission is logged in `fb_log`
  pub fb: Option<(Subj, Vec<i64>)>,
  pub fb_log: Sh<Vec<(usize, u64, V)>>,
}
impl Probe {
  pub fn new() -> Probe {
    Probe { log: sh(Vec::new()), cn: None, snap: sh(None), fb: None, fb_log: sh(Vec::new()) }
  }
  pub fn events(&self) -> Vec<Ev> {
    lock!(self.log).iter().map(|r| r.ev.clone()).collect()
  }
  pub fn recs(&self) -> Vec<Rec> {
    lock!(self.log).clone()
  }
  fn push(&self, ev: Ev) {
    if ev.is_terminal() {
      if let Some(cn) = &self.cn {
        let mut c = lock!(cn).clone();
        c.clock_firings = crate::vtime::total_firings();
        *lock!(self.snap) = Some(c);
      }
    }
    crate::stamp::evseq_bump();
    let r = Rec { ev, step: crate::stamp::get(), vt: as_ticks(crate::vtime::now()) };
    let mut log = lock!(self.log);
    // no generated case produces anywhere near this many notifications: a producer spinning without the clock
    // moving (e.g. a repeating task re-armed with a zero delay) becomes a panic verdict instead of a hang
    if log.len() >= 200_000 {
      drop(log);
      panic!("verif: notification storm: more than 200000 notifications reached one subscriber");
    }
    log.push(r);
  }
}
impl Observer<V, E> for Probe {
  fn next(&mut self, v: V) {
    let fed = match (&self.fb, &v) {
      (Some((_, trig)), V::I(n)) if trig.contains(n) => Some(V::I(*n + 5000)),
      // a pair whose first component is a trigger (with_latest_from: the main item)
      (Some((_, trig)), V::P(a, _)) if matches!(&**a, V::I(n) if trig.contains(n)) => Some(V::I(to_i(a) + 5000)),
      _ => None,
    };
    self.push(Ev::N(v));
    if let (Some(w), Some((subj, _))) = (fed, &self.fb) {
      lock!(self.fb_log).push((crate::stamp::get(), as_ticks(crate::vtime::now()), w.clone()));
      subj.clone().next(w);
    }
  }
  fn error(self, e: E) {
    self.push(Ev::Er(e))
  }
  fn complete(self) {
    self.push(Ev::C)
  }
  fn is_finished(&self) -> bool {
    false
  }
}

// ------------------------------------------------------------- engine P ----

/// what kind of thing backs hot input #i
#[derive(Clone, Copy, Debug, PartialEq, Eq, Hash)]
pub enum InputKind {
  Subject,
  Create,
  Behavior,
}

/// emit `ev` into hot input `i` (through a fresh clone of the handle, so that
/// several terminals can be issued)
pub fn emit(env: &Env, kind: InputKind, i: usize, ev: &Ev) {
  match kind {
    InputKind::Subject => {
      let mut h = env.hot[i].clone();
      match ev {
        Ev::N(v) => h.next(v.clone()),
        Ev::Er(e) => h.error(e.clone()),
        Ev::C => h.complete(),
      }
    }
    InputKind::Behavior => {
      let mut h = env.beh[i].clone();
      match ev {
        Ev::N(v) => h.next(v.clone()),
        Ev::Er(e) => h.error(e.clone()),
        Ev::C => h.complete(),
      }
    }
    InputKind::Create => {
      // every subscription of the `create` source registered a handle
      let hs: Vec<Subr> = lock!(env.slots[i]).clone();
      for mut h in hs {
        match ev {
          Ev::N(v) => h.next(v.clone()),
          Ev::Er(e) => h.error(e.clone()),
          Ev::C => h.complete(),
        }
      }
    }
  }
}


fn conv_mode(m: SchedMode) -> crate::vtime::Mode {
  match m {
    SchedMode::Fifo => crate::vtime::Mode::Fifo,
    SchedMode::Lazy => crate::vtime::Mode::Lazy,
    SchedMode::AnyOrder => crate::vtime::Mode::AnyOrder,
  }
}
fn conv_kind(k: IKind) -> InputKind {
  match k {
    IKind::Subject => InputKind::Subject,
    IKind::Create => InputKind::Create,
    IKind::Behavior => InputKind::Behavior,
  }
}

/// run a pipeline case on the real library (single thread, virtual time)
/// holds a value whose `Drop` has side effects; during a panic the value is leaked instead of dropped
pub struct ForgetOnPanic<T>(pub Option<T>);
impl<T> Drop for ForgetOnPanic<T> {
  fn drop(&mut self) {
    if std::thread::panicking() {
      std::mem::forget(self.0.take());
    }
  }
}

pub fn exec(case: &PCase, sample_closed: bool) -> Trace {
  exec_fb(case, sample_closed, &[])
}

/// like `exec`; with triggers the final subscriber feeds hot input 0 from inside its `next` callback (see `Probe::fb`)
pub fn exec_fb(case: &PCase, sample_closed: bool, fb: &[i64]) -> Trace {
  use crate::vtime;
  if std::env::var("RXV_TRACE_CASE").is_ok() {
    eprintln!("case: {:?} kinds {:?} mode {:?} script({}) {:?}", case.node, case.kinds, case.mode, case.script.len(), case.script);
  }
  vtime::reset(conv_mode(case.mode));
  crate::stamp::set(crate::stamp::AT_SUBSCRIBE);
  crate::stamp::evseq_reset();
  let env = Env::new(case.kinds.len().max(1));
  let p = build(&case.node, &env);
  let mut probe = Probe::new();
  probe.cn = Some(env.counters.clone());
  if !fb.is_empty() {
    probe.fb = Some((env.hot[0].clone(), fb.to_vec()));
  }
  let mut sub: Option<BSub> = Some(p.actual_subscribe(probe.clone()));
  // (a guard must not run its unsubscribe while a panic is unwinding through this frame: with a cell still locked
  // further up the stack the lock hook would panic a second time and abort the process)
  let mut guard: ForgetOnPanic<SubscriptionGuard<BSub>> = ForgetOnPanic(None);
  let mut tr = Trace::default();
  let prompt = case.mode == SchedMode::Fifo;
  if prompt {
    vtime::run_until_stalled();
  }
  tr.finalize_after_step.push(lock!(env.counters).finalize_calls);
  if sample_closed {
    if let Some(s) = &sub {
      tr.closed.push((usize::MAX, s.is_closed()));
    }
    tr.status_after_step.push(lock!(env.statuses).iter().map(|s| (s.is_completed(), s.error_occur())).collect());
  }
  let uses_guard = case.script.iter().any(|s| matches!(s, Step::DropGuard));
  if uses_guard {
    guard.0 = sub.take().map(|s| s.unsubscribe_when_dropped());
  }
  for (k, st) in case.script.iter().enumerate() {
    crate::stamp::set(k);
    match st {
      Step::Emit(i, ev) => {
        let i = *i % case.kinds.len().max(1);
        emit(&env, conv_kind(case.kinds[i]), i, ev);
        if prompt {
          vtime::run_until_stalled();
        }
      }
      Step::Advance(n) => vtime::advance(ticks(*n), prompt),
      Step::AdvanceNoRun(n) => vtime::advance(ticks(*n), false),
      Step::FireNext => {
        vtime::fire_next_timer();
        if prompt {
          vtime::run_until_stalled();
        }
      }
      Step::Run => vtime::run_until_stalled(),
      Step::RunReady(j) => {
        let n = vtime::ready_count();
        if n > 0 {
          vtime::run_ready(*j % n);
        }
      }
      Step::Unsub => {
        if let Some(s) = sub.take() {
          tr.live_at_unsub = vtime::live_tasks();
          tr.timers_at_unsub = vtime::pending_timers();
          s.unsubscribe();
          tr.unsub_at = Some(k);
        }
      }
      Step::DropGuard => {
        if let Some(g) = guard.0.take() {
          tr.live_at_unsub = vtime::live_tasks();
          tr.timers_at_unsub = vtime::pending_timers();
          drop(g);
          tr.unsub_at = Some(k);
        }
      }
    }
    if sample_closed {
      if let Some(s) = &sub {
        tr.closed.push((k, s.is_closed()));
      }
      tr.status_after_step.push(lock!(env.statuses).iter().map(|s| (s.is_completed(), s.error_occur())).collect());
    }
    tr.finalize_after_step.push(lock!(env.counters).finalize_calls);
  }
  // let everything that is still scheduled run (bounded: periodic sources never end)
  crate::stamp::set(case.script.len());
  let (q, firings) = vtime::drain_count(24);
  tr.quiescent = q;
  tr.drain_firings = firings;
  tr.counters_at_terminal = lock!(probe.snap).clone();
  if sample_closed {
    if let Some(s) = &sub {
      tr.closed.push((case.script.len(), s.is_closed()));
    }
  }
  tr.recs = probe.recs();
  tr.fb = lock!(probe.fb_log).clone();
  tr.counters = lock!(env.counters).clone();
  tr.counters.clock_firings = vtime::total_firings();
  tr.live_tasks_end = vtime::live_tasks();
  tr.pending_timers_end = vtime::pending_timers();
  tr.status_flags = lock!(env.statuses).iter().map(|s| (s.is_completed(), s.error_occur())).collect();
  tr.requested = vtime::requested().iter().map(|d| as_ticks(*d)).collect();
  // everything observable has been recorded: now tear the case down for real (unsubscribing breaks the
  // reference cycles between composite subscriptions and the observers that hold them)
  crate::stamp::set(usize::MAX - 1);
  drop(guard.0.take());
  if let Some(s) = sub.take() {
    s.unsubscribe();
  }
  env.teardown();
  crate::vtime::reset(conv_mode(case.mode));
  tr
}


// ------------------------------------------------------- time / async sources

#[derive(Default, Debug, Clone)]
pub struct PollStats {
  pub polls: usize,
  pub polls_after_end: usize,
}

pub struct ScriptedStream {
  script: Vec<SEv>,
  pos: usize,
  ended: bool,
  waiting: Option<crate::vtime::BoxTimer>,
  stats: Sh<PollStats>,
}

fn self_wake(cx: &mut std::task::Context<'_>) {
  cx.waker().wake_by_ref();
  if let Some(id) = crate::vtime::current_task() {
    crate::vtime::mark_ready(id);
  }
}

impl ScriptedStream {
  /// next scripted event: Ok(Some(item/fail)) | Ok(None) = end | Err(()) = pending
  fn step(&mut self, cx: &mut std::task::Context<'_>) -> Result<Option<Result<V, E>>, ()> {
    use std::future::Future;
    lock!(self.stats).polls += 1;
    if self.ended {
      lock!(self.stats).polls_after_end += 1;
      return Ok(None);
    }
    loop {
      if let Some(t) = self.waiting.as_mut() {
        match t.as_mut().poll(cx) {
          std::task::Poll::Ready(()) => self.waiting = None,
          std::task::Poll::Pending => return Err(()),
        }
      }
      if self.pos >= self.script.len() {
        self.ended = true;
        return Ok(None);
      }
      let ev = self.script[self.pos].clone();
      self.pos += 1;
      match ev {
        SEv::Item(v) => return Ok(Some(Ok(v))),
        SEv::Fail(e) => return Ok(Some(Err(e))),
        SEv::Pend => {
          self_wake(cx);
          return Err(());
        }
        SEv::PendUntil(dt) => self.waiting = Some(crate::vtime::new_vtimer(ticks(dt))),
      }
    }
  }
}

/// plain stream: a scripted failure ends the stream (from_stream has no error channel)
pub struct PlainStream(ScriptedStream);
impl futures::Stream for PlainStream {
  type Item = V;
  fn poll_next(mut self: std::pin::Pin<&mut Self>, cx: &mut std::task::Context<'_>) -> std::task::Poll<Option<V>> {
    match self.0.step(cx) {
      Err(()) => std::task::Poll::Pending,
      Ok(None) => std::task::Poll::Ready(None),
      Ok(Some(Ok(v))) => std::task::Poll::Ready(Some(v)),
      Ok(Some(Err(_))) => {
        self.0.ended = true;
        std::task::Poll::Ready(None)
      }
    }
  }
}
pub struct ResultStream(ScriptedStream);
impl futures::Stream for ResultStream {
  type Item = Result<V, E>;
  fn poll_next(mut self: std::pin::Pin<&mut Self>, cx: &mut std::task::Context<'_>) -> std::task::Poll<Option<Result<V, E>>> {
    match self.0.step(cx) {
      Err(()) => std::task::Poll::Pending,
      Ok(None) => std::task::Poll::Ready(None),
      Ok(Some(r)) => {
        if r.is_err() {
          self.0.ended = true; // a TryStream consumer must not poll again after the error
        }
        std::task::Poll::Ready(Some(r))
      }
    }
  }
}

pub struct ScriptedFuture<T> {
  pend: usize,
  waiting: Option<crate::vtime::BoxTimer>,
  out: Option<T>,
  stats: Sh<PollStats>,
}
impl<T: Unpin> std::future::Future for ScriptedFuture<T> {
  type Output = T;
  fn poll(mut self: std::pin::Pin<&mut Self>, cx: &mut std::task::Context<'_>) -> std::task::Poll<T> {
    lock!(self.stats).polls += 1;
    if self.out.is_none() {
      lock!(self.stats).polls_after_end += 1;
      return std::task::Poll::Pending;
    }
    if self.pend > 0 {
      self.pend -= 1;
      self_wake(cx);
      return std::task::Poll::Pending;
    }
    if let Some(t) = self.waiting.as_mut() {
      match t.as_mut().poll(cx) {
        std::task::Poll::Ready(()) => self.waiting = None,
        std::task::Poll::Pending => return std::task::Poll::Pending,
      }
    }
    std::task::Poll::Ready(self.out.take().unwrap())
  }
}

pub struct SrcTrace {
  pub recs: Vec<Rec>,
  pub stats: PollStats,
  /// durations (ms) asked from the timer function while this source was being subscribed
  pub requested_at_subscribe: Vec<u64>,
  /// virtual time after each script step, and after the final run
  pub step_times: Vec<u64>,
  /// virtual time at which this source was subscribed (0 unless it was built first and subscribed later)
  pub sub_time: u64,
}

pub fn build_tsrc(t: &TSrc, stats: &Sh<PollStats>) -> Bx {
  let mk_stream = |script: &Vec<SEv>| ScriptedStream { script: script.clone(), pos: 0, ended: false, waiting: None, stats: stats.clone() };
  match t {
    TSrc::Interval(p) => bx(observable::interval(ticks(*p), VSched).map(|n: usize| V::I(n as i64)).on_error_map(inf as InfFn)),
    TSrc::IntervalAt(h, ph) => {
      bx(observable::interval_at(instant_at(*h), Duration::from_secs(3600 * *ph), VSched).map(|n: usize| V::I(n as i64)).on_error_map(inf as InfFn))
    }
    TSrc::Timer(v, d) => bx(observable::timer(v.clone(), ticks(*d), VSched).on_error_map(inf as InfFn)),
    TSrc::TimerAt(v, h) => bx(observable::timer_at(v.clone(), instant_at(*h), VSched).on_error_map(inf as InfFn)),
    TSrc::Future(pend, until, v) => {
      let f = ScriptedFuture { pend: *pend, waiting: until.map(|d| crate::vtime::new_vtimer_lazy(ticks(d))), out: Some(v.clone()), stats: stats.clone() };
      bx(observable::from_future(f, VSched).on_error_map(inf as InfFn))
    }
    TSrc::FutureResult(pend, until, r) => {
      let f = ScriptedFuture { pend: *pend, waiting: until.map(|d| crate::vtime::new_vtimer_lazy(ticks(d))), out: Some(r.clone()), stats: stats.clone() };
      bx(observable::from_future_result(f, VSched))
    }
    TSrc::Stream(script) => bx(observable::from_stream(PlainStream(mk_stream(script)), VSched).on_error_map(inf as InfFn)),
    TSrc::StreamResult(script) => bx(observable::from_stream_result(ResultStream(mk_stream(script)), VSched)),
  }
}

/// C08: every source is built at t = 0; source i is subscribed (own probe each) right away when `sub_at[i]` is 0 or
/// missing, otherwise just before script step `sub_at[i]`; the script drives the clock / executor
pub fn exec_sources(srcs: &[TSrc], script: &[Step], mode: SchedMode, sub_at: &[usize]) -> Vec<SrcTrace> {
  use crate::vtime;
  vtime::reset(conv_mode(mode));
  crate::stamp::set(crate::stamp::AT_SUBSCRIBE);
  let prompt = mode == SchedMode::Fifo;
  let n = srcs.len();
  let mut built: Vec<Option<Bx>> = vec![];
  let mut probes: Vec<(Probe, Sh<PollStats>, Vec<u64>, u64)> = vec![];
  let mut subs = vec![];
  for t in srcs {
    let stats = sh(PollStats::default());
    built.push(Some(build_tsrc(t, &stats)));
    probes.push((Probe::new(), stats, vec![], 0));
  }
  let mut subscribe = |i: usize, built: &mut Vec<Option<Bx>>, probes: &mut Vec<(Probe, Sh<PollStats>, Vec<u64>, u64)>| {
    if let Some(p) = built[i].take() {
      let before = vtime::requested().len();
      subs.push(p.actual_subscribe(probes[i].0.clone()));
      probes[i].2 = vtime::requested()[before..].iter().map(|d| as_ticks(*d)).collect();
      probes[i].3 = as_ticks(vtime::now());
    }
  };
  for i in 0..n {
    if sub_at.get(i).cloned().unwrap_or(0) == 0 {
      subscribe(i, &mut built, &mut probes);
    }
  }
  if prompt {
    vtime::run_until_stalled();
  }
  let mut step_times = vec![];
  for (k, st) in script.iter().enumerate() {
    crate::stamp::set(k);
    let mut late = false;
    for i in 0..n {
      if k > 0 && sub_at.get(i).cloned().unwrap_or(0) == k {
        subscribe(i, &mut built, &mut probes);
        late = true;
      }
    }
    if late && prompt {
      vtime::run_until_stalled();
    }
    match st {
      Step::Advance(n) => vtime::advance(ticks(*n), prompt),
      Step::FireNext => {
        vtime::fire_next_timer();
        if prompt {
          vtime::run_until_stalled();
        }
      }
      Step::Run => vtime::run_until_stalled(),
      Step::RunReady(j) => {
        let n = vtime::ready_count();
        if n > 0 {
          vtime::run_ready(*j % n);
        }
      }
      _ => {}
    }
    step_times.push(as_ticks(vtime::now()));
  }
  crate::stamp::set(script.len());
  // final executor run (no further clock movement: periodic sources never end)
  vtime::run_until_stalled();
  step_times.push(as_ticks(vtime::now()));
  let out = probes
    .into_iter()
    .map(|(p, s, req, t)| SrcTrace { recs: p.recs(), stats: lock!(s).clone(), requested_at_subscribe: req, step_times: step_times.clone(), sub_time: t })
    .collect();
  drop(subscribe);
  drop(subs);
  out
}

// ------------------------------------------------------- composite histories (C17b)

#[derive(Default, Clone, Debug)]
pub struct ChildState {
  pub unsubs: usize,
  pub closed: bool,
}
pub struct ChildSub(Sh<ChildState>);
impl Subscription for ChildSub {
  fn unsubscribe(self) {
    let mut s = lock!(self.0);
    s.unsubs += 1;
    s.closed = true;
  }
  fn is_closed(&self) -> bool {
    lock!(self.0).closed
  }
}

/// a child that, while it is being unsubscribed, appends one more subscription to the composite it belongs to
pub struct ReChild {
  st: Sh<ChildState>,
  comp: MultiSub,
  grandchild: Sh<ChildState>,
}
impl Subscription for ReChild {
  fn unsubscribe(mut self) {
    {
      let mut s = lock!(self.st);
      s.unsubs += 1;
      s.closed = true;
    }
    self.comp.append(BoxSub::new(ChildSub(self.grandchild.clone())));
  }
  fn is_closed(&self) -> bool {
    lock!(self.st).closed
  }
}

#[derive(Clone, Debug)]
pub enum CObs {
  /// (handle, result)
  IsClosed(usize, bool),
  /// unsubscribe counts of every child after the step
  Children(Vec<usize>),
}

/// run a history on a real MultiSubscription(/Threads); returns what was observed after every step
pub fn exec_composite(ops: &[COp]) -> Vec<(usize, CObs)> {
  let mut handles: Vec<Option<MultiSub>> = vec![Some(MultiSub::default())];
  let mut children: Vec<Sh<ChildState>> = vec![];
  let mut out = vec![];
  for (k, op) in ops.iter().enumerate() {
    match op {
      COp::Append => {
        // through the first live handle
        if let Some(h) = handles.iter_mut().flatten().next() {
          let st = sh(ChildState::default());
          children.push(st.clone());
          h.append(BoxSub::new(ChildSub(st)));
        }
      }
      COp::AppendReentrant => {
        if let Some(h) = handles.iter_mut().flatten().next() {
          let (st, gst) = (sh(ChildState::default()), sh(ChildState::default()));
          children.push(st.clone());
          children.push(gst.clone());
          let comp = h.clone();
          h.append(BoxSub::new(ReChild { st, comp, grandchild: gst }));
        }
      }
      COp::CloneHandle(i) => {
        let live: Vec<usize> = handles.iter().enumerate().filter(|(_, h)| h.is_some()).map(|(i, _)| i).collect();
        if !live.is_empty() {
          let c = handles[live[*i % live.len()]].as_ref().unwrap().clone();
          handles.push(Some(c));
        }
      }
      COp::Unsub(i) => {
        let live: Vec<usize> = handles.iter().enumerate().filter(|(_, h)| h.is_some()).map(|(i, _)| i).collect();
        if live.len() > 1 || (live.len() == 1 && handles.len() == 1) {
          // keep at least one handle alive to observe is_closed() afterwards: clone first when it is the last one
          let idx = live[*i % live.len()];
          if live.len() == 1 {
            let c = handles[idx].as_ref().unwrap().clone();
            handles.push(Some(c));
          }
          handles[idx].take().unwrap().unsubscribe();
        }
      }
      COp::IsClosed(i) => {
        let live: Vec<usize> = handles.iter().enumerate().filter(|(_, h)| h.is_some()).map(|(i, _)| i).collect();
        if !live.is_empty() {
          let idx = live[*i % live.len()];
          out.push((k, CObs::IsClosed(idx, handles[idx].as_ref().unwrap().is_closed())));
        }
      }
      COp::CloseChild(c) => {
        if !children.is_empty() {
          let n = children.len();
          lock!(children[*c % n]).closed = true;
        }
      }
      COp::Retain(i) => {
        let live: Vec<usize> = handles.iter().enumerate().filter(|(_, h)| h.is_some()).map(|(i, _)| i).collect();
        if !live.is_empty() {
          let idx = live[*i % live.len()];
          handles[idx].as_mut().unwrap().retain();
        }
      }
    }
    out.push((k, CObs::Children(children.iter().map(|c| lock!(c).unsubs).collect())));
  }
  // everything has been observed: tear down what is still open (a re-entrant child holds a clone of its composite)
  if let Some(h) = handles.into_iter().flatten().next() {
    h.unsubscribe();
  }
  out
}

// ------------------------------------------------------- share / publish histories (C11)

#[derive(Clone, Debug, Default)]
pub struct ShareRun {
  /// per subscriber: (step, event)
  pub traces: Vec<Vec<(usize, Ev)>>,
  /// after every step: (source subscriptions so far, tap calls so far, live scheduled tasks)
  pub after_step: Vec<(usize, usize, usize)>,
}

pub fn exec_share(src: &ShSrc, publish: bool, ops: &[ShOp]) -> ShareRun {
  use crate::vtime;
  vtime::reset(vtime::Mode::Fifo);
  crate::stamp::set(crate::stamp::AT_SUBSCRIBE);
  let env = Env::new(1);
  let leaf = match src {
    ShSrc::Cold(evs) => Src::Create(evs.iter().map(|e| (0u8, e.clone())).collect()),
    ShSrc::Hot => Src::Hot(0),
    ShSrc::Interval(p) => Src::Interval(*p),
  };
  // defer counts source subscriptions (src_calls; Create adds one more per subscription), tap counts driven items
  let counted = matches!(src, ShSrc::Cold(_));
  let node = Node::un(Un::Tap, Node::Src(Src::Defer(Box::new(Node::Src(leaf)))));
  let upstream = build(&node, &env);
  let mut shared = None;
  let mut connectable = None;
  if publish {
    connectable = Some(upstream.publish::<Subj>());
  } else {
    shared = Some(sendonly!(upstream.share(), upstream.share_threads()));
  }
  let mut probes: Vec<Probe> = vec![];
  let mut subs: Vec<Option<BSub>> = vec![];
  let mut run = ShareRun::default();
  for (k, op) in ops.iter().enumerate() {
    crate::stamp::set(k);
    match op {
      ShOp::Subscribe => {
        let p = Probe::new();
        probes.push(p.clone());
        let s: Option<BSub> = if let Some(sh) = &shared {
          Some(BSub::new(sh.clone().actual_subscribe(p)))
        } else if let Some(c) = &connectable {
          Some(BSub::new(c.fork().actual_subscribe(p)))
        } else {
          // already connected: late subscribers of a published observable are not part of the property
          None
        };
        subs.push(s);
      }
      ShOp::Unsub(i) => {
        let live: Vec<usize> = subs.iter().enumerate().filter(|(_, s)| s.is_some()).map(|(i, _)| i).collect();
        if !live.is_empty() {
          subs[live[*i % live.len()]].take().unwrap().unsubscribe();
        }
      }
      ShOp::Emit(ev) => emit(&env, InputKind::Subject, 0, ev),
      ShOp::Advance(n) => vtime::advance(ticks(*n), true),
      ShOp::Connect => {
        if let Some(c) = connectable.take() {
          let _ = c.connect();
        }
      }
    }
    vtime::run_until_stalled();
    let c = lock!(env.counters).clone();
    let subs_so_far = if counted { c.src_calls / 2 + c.src_calls % 2 } else { c.src_calls };
    run.after_step.push((subs_so_far, c.tap_calls, vtime::live_tasks()));
  }
  run.traces = probes.iter().map(|p| p.recs().into_iter().map(|r| (r.step, r.ev)).collect()).collect();
  for s in subs.into_iter().flatten() {
    s.unsubscribe();
  }
  drop(shared);
  env.teardown();
  run
}
