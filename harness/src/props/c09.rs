//! C09 — rate-limiting operators never invent, duplicate or reorder items.
//! Oracle: (i) model-free invariants over uniquely numbered items, (ii) a small
//! discrete-event reference model (window / timer semantics from the docs,
//! executor semantics of a FIFO pool) giving the exact (time, notification) list.
use crate::ast::*;
use crate::choice::{Choices, ChoicesExt};
use crate::common::*;
use crate::props::c01::pcase_json;
use crate::run::*;
use crate::value::*;
use serde_json::json;

pub fn prop() -> Prop {
  Prop {
    id: "C09",
    rule: "case = (operator in debounce(w) / throttle_time(w, edge) / throttle(item-dependent window, edge) / sample(interval(p)) / buffer_with_time(p) / buffer_with_count_and_time(n,p); w in {0,1,2,3,5}, p in {1,2,3,5}, n in 1..3, all three throttle edges; timed script of <= 10 steps (one case in eight: a burst of 35..75 items with gaps mostly shorter than the window) over a hot source with uniquely numbered items: emit, advance 1..3 ticks with a prompt executor, or advance and let the due timers' tasks run only *after* the next emission (same-instant source event before the timer task), one terminal (complete or error); local / per-node _threads / thread-safe build). \
           Oracle: (i) outputs consist of source items only, each at most once, in source order; buffers are non-empty, never longer than n, and their concatenation is the whole source when it completed; (ii) the (virtual time, notification) list equals a discrete-event reference model: debounce emits an item iff no newer item arrived before its timer task ran and always the last one on completion; throttle emits the window-opening item on the leading edge and the last item that arrived inside the window on the trailing edge (a window cut short by the source's completion has its trailing edge at the completion: the pending trailing item is delivered right before it, as the library's own tailing tests pin down); sample/buffers release exactly what was gathered since the previous tick. Non-trivial: >= 2 items inside one window/period, or a source event at the same instant as a timer expiry. Distinct by hash(case). \
           Part `threads` (engine T): a producer thread pushes 1..4 numbered items and then completes a SubjectThreads feeding buffer_with_time / buffer_with_count_and_time / debounce / throttle_time on a harness-driven multi-thread scheduler, while a worker thread advances the clock and runs the queued timer tasks; the probe callback contains a yield point (slow consumer); schedule = <= 3 preemptions at lock-acquisition granularity. Oracle (model-free part (i) only): source items only, at most once, in order; buffers non-empty and bounded; after completion and a final drain the buffers concatenate to the whole source.",
    assumptions: &[
      "scheduler = FIFO local pool on the virtual clock; a delayed task's timer is armed when the executor first polls it (right after the emission that scheduled it)",
      "the trailing emission of throttle does not open a new window (statement silent; the library's reading)",
    ],
    parts: vec![
      Part { name: "timed", run: run_case, tape_len: 96, quick_cases: 800_000, thorough_cases: 16_000_000, exhaustive_depth: None, exhaustive_budget: 0, exh_quick: false },
      Part { name: "threads", run: run_threads, tape_len: 32, quick_cases: 20_000, thorough_cases: 500_000, exhaustive_depth: None, exhaustive_budget: 0, exh_quick: false },
    ],
  }
}

#[derive(Clone, Debug, Hash, PartialEq, Eq)]
enum Op {
  Debounce(u64),
  ThrottleTime(u64, Edge),
  Throttle(Edge),
  Sample(u64),
  BufferTime(u64),
  BufferCountTime(usize, u64),
}

#[derive(Clone, Debug, Hash)]
struct Case {
  op: Op,
  pcase: PCase,
  /// length of one tick in ns (1, or 0.7 s / 1 s + 1 ns: windows and gaps then cross the second boundary unevenly)
  unit: u64,
}

fn gen_case(c: &mut dyn Choices) -> Case {
  let w = |c: &mut dyn Choices| *c.one_of(&[1u64, 2, 3, 5, 0]);
  let p = |c: &mut dyn Choices| *c.one_of(&[1u64, 2, 3, 5]);
  let op = match c.pick(8) {
    0 | 1 => Op::Debounce(w(c)),
    2 | 3 => Op::ThrottleTime(w(c), gen_edge(c)),
    4 => Op::Throttle(gen_edge(c)),
    5 => Op::Sample(p(c)),
    6 => Op::BufferTime(p(c)),
    _ => Op::BufferCountTime(1 + c.pick(3), p(c)),
  };
  let len = c.pick(11);
  let mut script = vec![];
  let mut id = 0i64;
  let mut terminated = false;
  for _ in 0..len {
    let r = c.pick(12);
    if r < 5 {
      id += 1;
      script.push(Step::Emit(0, Ev::N(V::I(id))));
    } else if r < 8 {
      script.push(Step::Advance(1 + c.pick(3) as u64));
    } else if r < 11 {
      // source event at an instant at which timers fall due, *before* their tasks run
      script.push(Step::AdvanceNoRun(1 + c.pick(3) as u64));
      id += 1;
      script.push(Step::Emit(0, Ev::N(V::I(id))));
    } else if !terminated {
      terminated = true;
      if c.flag() {
        script.push(Step::AdvanceNoRun(1 + c.pick(3) as u64));
      }
      script.push(Step::Emit(0, if c.pick(4) == 0 { Ev::Er(E(5)) } else { Ev::C }));
    }
  }
  let tf = c.pick(3) == 0;
  let src = Node::Src(Src::Hot(0));
  let node = match &op {
    Op::Debounce(d) => Node::Un(Un::Debounce(*d), tf, Box::new(src)),
    Op::ThrottleTime(d, e) => Node::Un(Un::ThrottleTime(*d, *e), tf, Box::new(src)),
    Op::Throttle(e) => Node::Un(Un::Throttle(*e), tf, Box::new(src)),
    Op::Sample(p) => Node::Bin(Bin::Sample, tf, Box::new(src), Box::new(Node::Src(Src::Interval(*p)))),
    Op::BufferTime(p) => Node::Un(Un::BufferWithTime(*p), tf, Box::new(src)),
    Op::BufferCountTime(n, p) => Node::Un(Un::BufferWithCountAndTime(*n, *p), tf, Box::new(src)),
  };
  let threads = c.pick(3) == 0;
  // (appended picks, recorded tapes keep their meaning) one case in eight is a long burst instead:
  // 35..75 items, most gaps shorter than the window
  if c.pick(8) == 7 {
    script.clear();
    let mut id = 0i64;
    let m = crate::ast::pick_size(c, 35, 41, &[130, 260]);
    let pattern = c.pick(4);
    for i in 0..m {
      id += 1;
      script.push(Step::Emit(0, Ev::N(V::I(id))));
      let gap = match pattern {
        0 => 1,
        1 => (i % 2) as u64,
        2 => {
          if i % 17 == 16 {
            7
          } else {
            1
          }
        }
        _ => {
          if i % 40 == 39 {
            4
          } else {
            0
          }
        }
      };
      if gap > 0 {
        script.push(if c.pick(6) == 0 { Step::AdvanceNoRun(gap) } else { Step::Advance(gap) });
      }
    }
    if c.flag() {
      script.push(Step::Emit(0, if c.pick(4) == 0 { Ev::Er(E(5)) } else { Ev::C }));
    }
  }
  // (appended pick) a quarter of the cases measure time in units of 0.7 s or 1 s + 1 ns
  let unit = *c.one_of(&[1u64, 1, 1, 1, 1, 1, 700_000_000, 1_000_000_001]);
  Case { op, pcase: PCase { node, kinds: vec![IKind::Subject], script, mode: SchedMode::Fifo, threads }, unit }
}

// ------------------------------------------------------------ model --------

#[derive(Clone, Debug, PartialEq)]
enum TK {
  DebounceFire(u64), // generation id
  WindowEnd,
  Tick,
}
#[derive(Clone, Debug)]
struct MTimer {
  due: u64,
  seq: u64,
  kind: TK,
  cancelled: bool,
}

struct Model {
  op: Op,
  clock: u64,
  timers: Vec<MTimer>,  // armed, not yet fired
  ready: Vec<MTimer>,   // fired, task not yet run (FIFO)
  fresh: Vec<(u64, TK)>, // scheduled, not yet polled: (delay, kind)
  seq: u64,
  out: Vec<(u64, Ev)>,
  dead: bool, // downstream observer consumed
  src_done: bool,
  // operator state
  trailing: Option<V>,
  gen: u64,
  window_open: bool,
  cell: Option<V>,
  buf: Vec<V>,
  flush_on_complete: bool,
  same_instant: bool,
  multi_in_window: bool,
  in_window_count: usize,
}

impl Model {
  fn emit(&mut self, e: Ev) {
    if !self.dead {
      let t = e.is_terminal();
      self.out.push((self.clock, e));
      if t {
        self.dead = true;
      }
    }
  }
  fn arm(&mut self, delay: u64, kind: TK) {
    if delay == 0 {
      // a zero timer is ready at its first poll: the body runs at once
      self.run_body(kind, false);
    } else {
      self.seq += 1;
      self.timers.push(MTimer { due: self.clock + delay, seq: self.seq, kind, cancelled: false });
    }
  }
  fn throttle_window(&self, v: &V) -> u64 {
    match &self.op {
      Op::ThrottleTime(w, _) => *w,
      Op::Throttle(_) => 1 + to_i(v).rem_euclid(3) as u64,
      _ => 0,
    }
  }
  fn edge(&self) -> Edge {
    match &self.op {
      Op::ThrottleTime(_, e) | Op::Throttle(e) => *e,
      _ => Edge::Leading,
    }
  }
  fn run_body(&mut self, kind: TK, cancelled: bool) {
    if cancelled {
      return;
    }
    match kind {
      TK::DebounceFire(g) => {
        if g == self.gen {
          if let Some(v) = self.trailing.take() {
            self.emit(Ev::N(v));
          }
        }
      }
      TK::WindowEnd => {
        self.window_open = false;
        self.in_window_count = 0;
        if let Some(v) = self.trailing.take() {
          self.emit(Ev::N(v));
        }
      }
      TK::Tick => {
        // a periodic task stops once its observer has finished
        if self.dead {
          return;
        }
        match self.op.clone() {
          Op::Sample(p) => {
            if let Some(v) = self.cell.take() {
              self.emit(Ev::N(v));
            }
            self.arm_tick(p);
          }
          Op::BufferTime(p) | Op::BufferCountTime(_, p) => {
            if !self.buf.is_empty() {
              let b = std::mem::take(&mut self.buf);
              self.emit(Ev::N(V::L(b)));
            }
            self.arm_tick(p);
          }
          _ => {}
        }
      }
    }
  }
  fn arm_tick(&mut self, p: u64) {
    self.seq += 1;
    self.timers.push(MTimer { due: self.clock + p, seq: self.seq, kind: TK::Tick, cancelled: false });
  }
  /// run point: woken tasks first (FIFO), then the first poll of freshly scheduled ones
  fn run_point(&mut self) {
    loop {
      if !self.ready.is_empty() {
        let t = self.ready.remove(0);
        self.run_body(t.kind, t.cancelled);
      } else if !self.fresh.is_empty() {
        let (d, k) = self.fresh.remove(0);
        self.arm(d, k);
      } else {
        break;
      }
    }
  }
  fn fire_due(&mut self, upto: u64) {
    self.timers.sort_by_key(|t| (t.due, t.seq));
    while !self.timers.is_empty() && self.timers[0].due <= upto {
      let t = self.timers.remove(0);
      self.ready.push(t);
    }
  }
  fn advance(&mut self, n: u64, prompt: bool) {
    let target = self.clock + n;
    if prompt {
      loop {
        let next = self.timers.iter().map(|t| t.due).min();
        match next {
          Some(d) if d <= target => {
            self.clock = self.clock.max(d);
            self.fire_due(d);
            self.run_point();
          }
          _ => break,
        }
      }
      self.clock = target;
      self.fire_due(target);
      self.run_point();
    } else {
      self.clock = target;
      self.fire_due(target);
    }
  }
  fn source(&mut self, ev: &Ev) {
    if self.src_done {
      return;
    }
    if !self.ready.is_empty() {
      self.same_instant = true;
    }
    match ev {
      Ev::N(v) => match self.op.clone() {
        Op::Debounce(d) => {
          if self.trailing.is_some() {
            self.multi_in_window = true;
          }
          self.trailing = Some(v.clone());
          self.gen += 1;
          // the previous task is cancelled (its timer stays armed until due)
          for t in self.timers.iter_mut().chain(self.ready.iter_mut()) {
            if matches!(t.kind, TK::DebounceFire(_)) {
              t.cancelled = true;
            }
          }
          self.fresh.retain(|(_, k)| !matches!(k, TK::DebounceFire(_)));
          let g = self.gen;
          self.fresh.push((d, TK::DebounceFire(g)));
        }
        Op::ThrottleTime(..) | Op::Throttle(_) => {
          let e = self.edge();
          let (leading, trailing) = (e != Edge::Trailing, e != Edge::Leading);
          if !self.window_open {
            self.window_open = true;
            self.in_window_count = 1;
            let w = self.throttle_window(v);
            if leading {
              self.emit(Ev::N(v.clone()));
            } else if trailing {
              self.trailing = Some(v.clone());
            }
            self.fresh.push((w, TK::WindowEnd));
          } else {
            self.in_window_count += 1;
            self.multi_in_window = true;
            if trailing {
              self.trailing = Some(v.clone());
            }
          }
        }
        Op::Sample(_) => {
          if self.cell.is_some() {
            self.multi_in_window = true;
          }
          self.cell = Some(v.clone())
        }
        Op::BufferTime(_) => {
          if !self.buf.is_empty() {
            self.multi_in_window = true;
          }
          self.buf.push(v.clone())
        }
        Op::BufferCountTime(n, _) => {
          if !self.buf.is_empty() {
            self.multi_in_window = true;
          }
          self.buf.push(v.clone());
          if self.buf.len() >= n {
            let b = std::mem::take(&mut self.buf);
            self.emit(Ev::N(V::L(b)));
          }
        }
      },
      Ev::C => {
        self.src_done = true;
        match self.op.clone() {
          Op::Debounce(_) => {
            if let Some(v) = self.trailing.take() {
              self.emit(Ev::N(v));
            }
          }
          Op::ThrottleTime(..) | Op::Throttle(_) => {
            if let Some(v) = self.trailing.take() {
              if self.flush_on_complete {
                self.emit(Ev::N(v));
              }
            }
            for t in self.timers.iter_mut().chain(self.ready.iter_mut()) {
              if t.kind == TK::WindowEnd {
                t.cancelled = true;
              }
            }
            self.fresh.retain(|(_, k)| *k != TK::WindowEnd);
          }
          Op::Sample(_) => {}
          Op::BufferTime(_) | Op::BufferCountTime(..) => {
            if !self.buf.is_empty() {
              let b = std::mem::take(&mut self.buf);
              self.emit(Ev::N(V::L(b)));
            }
          }
        }
        self.emit(Ev::C);
      }
      Ev::Er(e) => {
        self.src_done = true;
        if matches!(self.op, Op::ThrottleTime(..) | Op::Throttle(_)) {
          for t in self.timers.iter_mut().chain(self.ready.iter_mut()) {
            if t.kind == TK::WindowEnd {
              t.cancelled = true;
            }
          }
          self.fresh.retain(|(_, k)| *k != TK::WindowEnd);
        }
        self.trailing = None;
        self.buf.clear();
        self.emit(Ev::Er(e.clone()));
      }
    }
  }
}

fn simulate(case: &Case, flush_on_complete: bool) -> (Vec<(u64, Ev)>, bool) {
  let mut m = Model {
    op: case.op.clone(),
    clock: 0,
    timers: vec![],
    ready: vec![],
    fresh: vec![],
    seq: 0,
    out: vec![],
    dead: false,
    src_done: false,
    trailing: None,
    gen: 0,
    window_open: false,
    cell: None,
    buf: vec![],
    flush_on_complete,
    same_instant: false,
    multi_in_window: false,
    in_window_count: 0,
  };
  // periodic operators arm their first timer at subscription
  match &case.op {
    Op::Sample(p) | Op::BufferTime(p) | Op::BufferCountTime(_, p) => m.arm_tick(*p),
    _ => {}
  }
  m.run_point();
  for s in &case.pcase.script {
    match s {
      Step::Emit(_, ev) => {
        m.source(ev);
        m.run_point();
      }
      Step::Advance(n) => m.advance(*n, true),
      Step::AdvanceNoRun(n) => m.advance(*n, false),
      _ => {}
    }
  }
  // final drain: run, then up to 12 x (jump to the next timer, fire, run)
  m.run_point();
  for _ in 0..12 {
    let Some(d) = m.timers.iter().map(|t| t.due).min() else { break };
    m.clock = m.clock.max(d);
    m.fire_due(d);
    m.run_point();
  }
  (m.out, m.same_instant || m.multi_in_window)
}

fn flatten_items(evs: &[Ev]) -> Vec<V> {
  let mut v = vec![];
  for e in evs {
    if let Ev::N(x) = e {
      match x {
        V::L(xs) => v.extend(xs.iter().cloned()),
        other => v.push(other.clone()),
      }
    }
  }
  v
}

fn op_name(op: &Op) -> &'static str {
  match op {
    Op::Debounce(_) => "debounce",
    Op::ThrottleTime(_, Edge::Leading) => "throttle_time:leading",
    Op::ThrottleTime(_, Edge::Trailing) => "throttle_time:trailing",
    Op::ThrottleTime(_, Edge::All) => "throttle_time:all",
    Op::Throttle(Edge::Leading) => "throttle:leading",
    Op::Throttle(Edge::Trailing) => "throttle:trailing",
    Op::Throttle(Edge::All) => "throttle:all",
    Op::Sample(_) => "sample(interval)",
    Op::BufferTime(_) => "buffer_with_time",
    Op::BufferCountTime(..) => "buffer_with_count_and_time",
  }
}

fn judge(case: &Case, tr: &Trace) -> Result<(), (String, String)> {
  let name = op_name(&case.op);
  let got: Vec<(u64, Ev)> = tr.recs.iter().map(|r| (r.vt, r.ev.clone())).collect();
  let got_evs: Vec<Ev> = got.iter().map(|x| x.1.clone()).collect();
  let shown = || got.iter().map(|(t, e)| format!("{}@t={}", ev_short(e), t)).collect::<Vec<_>>().join(" ");
  // source (cut at its terminal)
  let mut src_items: Vec<V> = vec![];
  let mut src_term: Option<Ev> = None;
  for s in &case.pcase.script {
    if let Step::Emit(_, ev) = s {
      match ev {
        Ev::N(v) => src_items.push(v.clone()),
        t => {
          src_term = Some(t.clone());
          break;
        }
      }
    }
  }
  // (i) model-free invariants
  let items = flatten_items(&got_evs);
  let mut pos = 0usize;
  for x in &items {
    match src_items[pos..].iter().position(|s| s == x) {
      Some(p) => pos += p + 1,
      None => {
        let kind = if !src_items.contains(x) {
          "invented"
        } else if items.iter().filter(|y| *y == x).count() > 1 {
          "duplicate"
        } else {
          "reordered"
        };
        return Err((format!("{kind}:{name}"), format!("source items {:?}; delivered {}", src_items.iter().map(v_short).collect::<Vec<_>>(), shown())));
      }
    }
  }
  if let Op::BufferTime(_) | Op::BufferCountTime(..) = &case.op {
    for e in &got_evs {
      if let Ev::N(V::L(xs)) = e {
        if xs.is_empty() {
          return Err((format!("empty-buffer:{name}"), shown()));
        }
        if let Op::BufferCountTime(n, _) = &case.op {
          if xs.len() > *n {
            return Err((format!("buffer-too-long:{name}"), shown()));
          }
        }
      }
    }
    if src_term == Some(Ev::C) && tr.quiescent && items != src_items {
      return Err((format!("buffer-loss:{name}"), format!("source completed after {:?} but the buffers concatenate to {:?}", src_items.iter().map(v_short).collect::<Vec<_>>(), items.iter().map(v_short).collect::<Vec<_>>())));
    }
  }
  // (ii) exact timed sequence from the reference model
  let (exp_a, _) = simulate(case, true);
  if got != exp_a {
    let fmt = |x: &Vec<(u64, Ev)>| x.iter().map(|(t, e)| format!("{}@t={}", ev_short(e), t)).collect::<Vec<_>>().join(" ");
    let kind = if got.iter().map(|x| &x.1).eq(exp_a.iter().map(|x| &x.1)) { "timing" } else { "sequence" };
    return Err((format!("{kind}:{name}"), format!("expected [{}] delivered [{}]", fmt(&exp_a), fmt(&got))));
  }
  Ok(())
}

fn run_case(c: &mut dyn Choices, ctx: &Ctx) -> Outcome {
  let case = gen_case(c);
  if ctx.known("duplicate:throttle_time:all") && matches!(case.op, Op::ThrottleTime(_, Edge::All) | Op::Throttle(Edge::All)) {
    return Outcome { labels: vec!["excluded-known"], ..Outcome::discard() };
  }
  let (_, nt) = simulate(&case, true);
  crate::vtime::set_unit(case.unit);
  let res = run_pcase(&case.pcase, false);
  let mut labels = vec![op_name(&case.op)];
  if case.pcase.threads {
    labels.push("build:threads");
  }
  if case.pcase.script.iter().any(|s| matches!(s, Step::AdvanceNoRun(_))) {
    labels.push("source-event-before-timer-task");
  }
  let verdict = match &res {
    Err(m) => Verdict::Violation { sig: format!("panic:{}", op_name(&case.op)), detail: m.clone() },
    Ok(tr) => match judge(&case, tr) {
      Ok(()) => Verdict::Ok,
      Err((sig, detail)) => Verdict::Violation { sig, detail },
    },
  };
  let desc = if ctx.want_desc || matches!(verdict, Verdict::Violation { .. }) {
    let mut j = pcase_json(&case.pcase);
    j["tick_ns"] = json!(case.unit);
    j["delivered"] = res.as_ref().map(|t| json!(t.recs.iter().map(|r| format!("{}@t={}", ev_short(&r.ev), r.vt)).collect::<Vec<_>>())).unwrap_or_else(|m| json!({ "panic": m }));
    j["model"] = json!(simulate(&case, true).0.iter().map(|(t, e)| format!("{}@t={}", ev_short(e), t)).collect::<Vec<_>>());
    Some(j)
  } else {
    None
  };
  Outcome { verdict, nontrivial: nt, hash: hash_of(&case), labels, notes: vec![], desc }
}


// ------------------------------------------------------------ engine T part

fn run_threads(c: &mut dyn Choices, ctx: &Ctx) -> Outcome {
  use crate::engine_t::{self, Verdict as TV};
  use crate::tworld::*;
  use crate::vtime::ticks;
  use rxrust::ops::throttle::ThrottleEdge;
  use rxrust::prelude::*;
  let op = c.pick(4);
  let n_items = 1 + c.pick(4);
  let w_ops: Vec<bool> = (0..(1 + c.pick(5))).map(|_| c.pick(2) == 0).collect(); // true = advance
  let k = c.pick(4);
  let mut preemptions: Vec<(u64, usize)> = (0..k).map(|_| (1 + c.pick(40) as u64, c.pick(2))).collect();
  preemptions.sort();
  preemptions.dedup_by_key(|p| p.0);
  crate::vtime::reset(crate::vtime::Mode::Fifo);
  let w = World::new();
  let sched = w.queue.spawner();
  let src = w.hot[0].clone();
  // items of buffers are flattened into the log as N(v) between markers
  let log = w.log.clone();
  struct BufProbe(TLog);
  impl Observer<Vec<Item>, Er> for BufProbe {
    fn next(&mut self, b: Vec<Item>) {
      let mut l = self.0.lock().unwrap();
      l.push((1, Mark::Enter(b.len(), PEv::C))); // buffer boundary: (1, Enter(len, _))
      for v in b {
        l.push((0, Mark::Enter(0, PEv::N(v))));
      }
      drop(l);
      crate::engine_t::explicit_yield();
    }
    fn error(self, e: Er) {
      self.0.lock().unwrap().push((0, Mark::Enter(0, PEv::E(e))));
    }
    fn complete(self) {
      self.0.lock().unwrap().push((0, Mark::Enter(0, PEv::C)));
    }
    fn is_finished(&self) -> bool {
      false
    }
  }
  let count = 2usize;
  let name = ["buffer_with_time", "buffer_with_count_and_time", "debounce", "throttle_time:all"][op];
  let _sub: Box<dyn std::any::Any + Send> = match op {
    0 => Box::new(src.buffer_with_time(ticks(1), sched).actual_subscribe(BufProbe(log.clone()))),
    1 => Box::new(src.buffer_with_count_and_time(count, ticks(1), sched).actual_subscribe(BufProbe(log.clone()))),
    2 => Box::new(src.debounce(ticks(1), sched).actual_subscribe(TProbe { id: 0, log: log.clone(), cut: None, after_cut: None, clock: None, deliveries: None, nest: None })),
    _ => Box::new(src.throttle_time(ticks(1), ThrottleEdge::all(), sched).actual_subscribe(TProbe { id: 0, log: log.clone(), cut: None, after_cut: None, clock: None, deliveries: None, nest: None })),
  };
  let producer: Box<dyn FnOnce() + Send> = {
    let mut s = w.hot[0].clone();
    Box::new(move || {
      for i in 0..n_items {
        engine_t::call_begin();
        s.next(1 + i as i64);
        engine_t::call_end();
      }
      s.complete();
    })
  };
  let worker: Box<dyn FnOnce() + Send> = {
    let q = w.queue.clone();
    let ops = w_ops.clone();
    Box::new(move || {
      for adv in ops {
        engine_t::call_begin();
        if adv {
          crate::vtime::advance(ticks(1), false);
        } else {
          q.run_one();
        }
        engine_t::call_end();
      }
    })
  };
  let stats = engine_t::run_threads(vec![producer, worker], preemptions.clone(), 4_000);
  if stats.verdict == TV::Completed {
    for _ in 0..4 {
      while w.queue.run_one() {}
      crate::vtime::advance(ticks(1), false);
    }
  }
  let lg = w.log.lock().unwrap().clone();
  let items: Vec<i64> = lg.iter().filter_map(|(p, m)| if *p == 0 { if let Mark::Enter(_, PEv::N(v)) = m { Some(*v) } else { None } } else { None }).collect();
  let buf_lens: Vec<usize> = lg.iter().filter_map(|(p, m)| if *p == 1 { if let Mark::Enter(l, _) = m { Some(*l) } else { None } } else { None }).collect();
  let completed = lg.iter().any(|(p, m)| *p == 0 && matches!(m, Mark::Enter(_, PEv::C)));
  let source: Vec<i64> = (1..=n_items as i64).collect();
  let verdict = match &stats.verdict {
    TV::Completed => {
      let mut it = source.iter();
      let in_order_subset = items.iter().all(|x| it.any(|s| s == x));
      if !in_order_subset {
        let kind = if items.iter().any(|x| !source.contains(x)) { "invented" } else if { let mut d = items.clone(); d.sort(); d.dedup(); d.len() != items.len() } { "duplicate" } else { "reordered" };
        let sig = format!("threads:{kind}:{name}");
        if ctx.known(&sig) {
          Verdict::Ok
        } else {
          Verdict::Violation { sig, detail: format!("source {source:?}, delivered {items:?}") }
        }
      } else if buf_lens.iter().any(|l| *l == 0) {
        Verdict::Violation { sig: format!("threads:empty-buffer:{name}"), detail: format!("{buf_lens:?}") }
      } else if op == 1 && buf_lens.iter().any(|l| *l > count) {
        Verdict::Violation { sig: format!("threads:buffer-too-long:{name}"), detail: format!("{buf_lens:?}") }
      } else if op <= 1 && (!completed || items != source) {
        Verdict::Violation { sig: format!("threads:buffer-loss:{name}"), detail: format!("the source sent {source:?} and completed; the buffers concatenate to {items:?} (completed: {completed})") }
      } else if op == 2 && completed && items.last() != source.last() {
        Verdict::Violation { sig: format!("threads:last-item-lost:{name}"), detail: format!("debounce must deliver the final item on completion: source {source:?}, delivered {items:?}") }
      } else {
        Verdict::Ok
      }
    }
    other => Verdict::Violation { sig: format!("threads:{}:{name}", match other { TV::Deadlock(_) => "deadlock", TV::LostWakeup(_) => "lost-wakeup", TV::Panic(_) => "panic", _ => "livelock" }), detail: format!("{other:?}") },
  };
  let desc = if ctx.want_desc || matches!(verdict, Verdict::Violation { .. }) {
    Some(json!({"operator": name, "producer": format!("next(1..={n_items}), complete"), "worker(true=advance 1 tick,false=run one task)": w_ops, "preemptions(step->thread; 0=producer 1=worker)": preemptions, "delivered_items": items, "buffer_lengths": buf_lens, "log(probe, mark(thread, event))": lg.iter().map(|(p, m)| format!("{p}:{m:?}")).collect::<Vec<_>>()}))
  } else {
    None
  };
  Outcome { verdict, nontrivial: stats.preempted_inside_call > 0, hash: hash_of(&(op, n_items, &w_ops, &preemptions)), labels: vec!["part:threads", name], notes: vec![], desc }
}
