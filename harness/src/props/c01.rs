//! C01 — every subscriber sees items, then at most one terminal, then nothing.
//! Oracle: invariant over the probe history (`Next* (Error|Complete)?`).
use crate::ast::*;
use crate::choice::{Choices, ChoicesExt};
use crate::common::*;
use crate::run::*;
use crate::value::*;
use serde_json::json;

pub fn prop() -> Prop {
  Prop {
    id: "C01",
    rule: "case = (pipeline AST of depth <= 4 (thorough: <= 5) over the whole catalogue: cold sources, hot Subject / create-handle / BehaviorSubject inputs (shared between leaves), interval/timer, the C03 unary operators, on_error/on_complete/finalize/share/box_it/group_by+flatten/complete_status, all scheduler operators on a virtual scheduler, the 8 two-input combinators, merge_all/concat_all/flatten/flat_map/concat_map; local build with per-node _threads flags or the all-thread-safe build; script of <= 12 steps over 1..3 hot inputs in which inputs keep emitting after their own and the pipeline's terminal and terminals are repeated through cloned handles; scheduler mode FIFO (prompt), lazy, or any-ready-task-next). \
           Oracle: the notifications delivered to the final subscriber match Next* (Error|Complete)?. Non-trivial: an event was sent into an input after that input's terminal or after the pipeline's terminal was delivered, or an input got >= 2 terminals, or >= 2 inputs terminated. Distinct by hash(case).",
    assumptions: &[
      "a panic inside the pipeline is not a grammar violation: such cases are counted under label `panic` (panics are violations under C05/C10)",
      "callbacks do not re-enter the pipeline",
    ],
    parts: vec![Part { name: "pipelines", run: run_case, tape_len: 160, quick_cases: 2_000_000, thorough_cases: 40_000_000, exhaustive_depth: None, exhaustive_budget: 0, exh_quick: false }],
  }
}

pub fn gen_mode(c: &mut dyn Choices, uses_sched: bool) -> SchedMode {
  if !uses_sched {
    return SchedMode::Fifo;
  }
  match c.pick(4) {
    0 | 1 => SchedMode::Fifo,
    2 => SchedMode::AnyOrder,
    _ => SchedMode::Lazy,
  }
}

pub fn gen_pcase(c: &mut dyn Choices, max_depth: usize, full: bool) -> PCase {
  let n_inputs = 1 + c.pick(3);
  let kinds = gen_kinds(c, n_inputs, true);
  let cfg = GenCfg { n_inputs, alphabet: 4, time_ops: full, flat_ops: true, share_ops: true, reuse_inputs: true };
  let depth = 1 + c.pick(max_depth);
  let mut next = 0;
  let node = gen_node(c, depth, &cfg, &kinds, &mut next);
  let uses = node.uses_scheduler();
  let mode = gen_mode(c, uses);
  let script = gen_script(c, n_inputs, 12, 4, uses, mode);
  let threads = c.pick(3) == 0;
  PCase { node, kinds, script, mode, threads }
}

/// to be called with the *last* picks of a case (recorded tapes keep their meaning): one script in sixteen
/// becomes long. Returns the number of steps put in front of the original script.
pub fn maybe_lengthen(c: &mut dyn Choices, case: &mut PCase) -> usize {
  // a flattening operator whose inner observables are hot inputs re-subscribes that input for every outer item: n items
  // cost n^2 deliveries, two such operators n^4 (180 s and more for 60 items) - those pipelines keep their short scripts
  let mut hot_flats = 0;
  case.node.visit(&mut |n| {
    if let Node::Flat(_, _, inners) = n {
      let mut hot = false;
      for i in inners {
        i.visit(&mut |m| {
          if let Node::Src(Src::Hot(_)) | Node::Src(Src::HotCreate(_)) | Node::Src(Src::Behavior(..)) = m {
            hot = true
          }
        });
      }
      if hot {
        hot_flats += 1;
      }
    }
  });
  if c.pick(16) == 15 && hot_flats < 2 {
    let old = case.script.len();
    case.script = lengthen_script(c, &case.script);
    case.script.len() - old
  } else {
    0
  }
}

/// (non-trivial?, labels) from what the script *sends*
pub fn script_profile(case: &PCase, tr: Option<&Trace>) -> (bool, Vec<&'static str>) {
  let n = case.kinds.len();
  let mut terms = vec![0usize; n];
  let mut after_own = false;
  for s in &case.script {
    if let Step::Emit(i, ev) = s {
      let i = *i % n;
      if terms[i] > 0 {
        after_own = true;
      }
      if ev.is_terminal() {
        terms[i] += 1;
      }
    }
  }
  let multi_term = terms.iter().any(|t| *t >= 2);
  let several_inputs_terminated = terms.iter().filter(|t| **t >= 1).count() >= 2;
  let mut after_pipeline = false;
  if let Some(tr) = tr {
    if let Some(r) = tr.recs.iter().find(|r| r.ev.is_terminal()) {
      let ts = if r.step == usize::MAX { 0 } else { r.step + 1 };
      after_pipeline = case.script.iter().skip(ts).any(|s| matches!(s, Step::Emit(..)));
    }
  }
  let mut labels = vec![];
  if after_own {
    labels.push("sent-after-own-terminal");
  }
  if multi_term {
    labels.push("repeated-terminal");
  }
  if several_inputs_terminated {
    labels.push("several-inputs-terminated");
  }
  if after_pipeline {
    labels.push("sent-after-pipeline-terminal");
  }
  labels.push(match case.mode {
    SchedMode::Fifo => "mode:fifo",
    SchedMode::Lazy => "mode:lazy",
    SchedMode::AnyOrder => "mode:anyorder",
  });
  if case.threads {
    labels.push("build:threads");
  }
  if case.node.uses_scheduler() {
    labels.push("uses-scheduler");
  }
  let mut has_flat = false;
  let mut has_bin = false;
  case.node.visit(&mut |n| match n {
    Node::Flat(..) => has_flat = true,
    Node::Bin(..) => has_bin = true,
    _ => {}
  });
  if has_flat {
    labels.push("has-flatten");
  }
  if has_bin {
    labels.push("has-binary");
  }
  (after_own || multi_term || several_inputs_terminated || after_pipeline, labels)
}

pub fn grammar_ok(evs: &[Ev]) -> bool {
  match evs.iter().position(|e| e.is_terminal()) {
    None => true,
    Some(p) => p + 1 == evs.len(),
  }
}

pub fn pcase_json(case: &PCase) -> serde_json::Value {
  json!({
    "pipeline": case.node.short(),
    "inputs": case.kinds.iter().map(|k| format!("{k:?}")).collect::<Vec<_>>(),
    "script": script_short(&case.script),
    "scheduler": format!("{:?}", case.mode),
    "build": if case.threads {"threads"} else {"local (per-node #t flags)"},
  })
}

/// names of the operators of a (shrunk) pipeline, for signatures
pub fn op_names(n: &Node) -> String {
  let mut v: Vec<String> = vec![];
  n.visit(&mut |n| {
    let s = match n {
      Node::Src(s) => format!("{s:?}"),
      Node::Un(o, _, _) => format!("{o:?}"),
      Node::Bin(o, _, _, _) => format!("{o:?}"),
      Node::Flat(o, _, _) => format!("{o:?}"),
    };
    v.push(s.split(|ch| ch == '(' || ch == ' ').next().unwrap().to_string());
  });
  v.sort();
  v.dedup();
  v.join("+")
}

fn run_case(c: &mut dyn Choices, ctx: &Ctx) -> Outcome {
  let mut case = gen_pcase(c, if ctx.tier == Tier::Thorough { 5 } else { 4 }, true);
  maybe_lengthen(c, &mut case);
  let res = run_pcase(&case, false);
  let (nt, mut labels) = script_profile(&case, res.as_ref().ok());
  let mut notes = vec![];
  let verdict = match &res {
    Err(m) => {
      labels.push("panic");
      notes.push(format!("panic: {}", crate::run::panic_class(m)));
      Verdict::Ok
    }
    Ok(tr) => {
      if grammar_ok(&tr.events()) {
        Verdict::Ok
      } else {
        Verdict::Violation { sig: format!("grammar:{}", op_names(&case.node)), detail: format!("delivered: {}", tr.short()) }
      }
    }
  };
  let desc = if ctx.want_desc || matches!(verdict, Verdict::Violation { .. }) {
    let mut j = pcase_json(&case);
    j["delivered"] = match &res {
      Ok(tr) => json!(tr.short()),
      Err(m) => json!({ "panic": m }),
    };
    Some(j)
  } else {
    None
  };
  Outcome { verdict, nontrivial: nt, hash: hash_of(&case), labels, notes, desc }
}
