//! C05 — flattening delivers every inner item once and honours the concurrency limit.
//! Oracle: (i) exact sequence from an active-set + FIFO-queue simulation,
//! (ii) model-free invariants over tagged items, (iii) no panic / self-deadlock.
use crate::ast::*;
use crate::choice::{Choices, ChoicesExt};
use crate::common::*;
use crate::props::c01::pcase_json;
use crate::run::*;
use crate::value::*;
use serde_json::json;
use std::collections::VecDeque;

pub fn prop() -> Prop {
  Prop {
    id: "C05",
    rule: "case = (operator in merge_all(n)/concat_all/flatten/flat_map/concat_map, local or thread-safe build; outer = hot input or cold list emitting up to 5 selections (one case in eight: 100..320) among k <= 4 inner observables; each inner cold-synchronous (0..2 tagged items then complete or error) or hot (driven later by the script); n in 1..k+1, occasionally 255 / 256 / 65536 / 65537 / 2^32 / usize::MAX-1; script of <= 14 events interleaving outer items/terminals with inner items/completions/errors). Every inner is wrapped in a subscription tracker (defer + finalize). \
           Oracle: (i) delivered (step, notification) list == active-set/FIFO-queue simulation; (ii) each tagged inner item at most once and in per-inner order, for concat in outer order, live inner subscriptions <= n at every moment; (iii) no panic and no self-deadlock. Non-trivial: an inner waited in the queue and was started by another inner's completion. Distinct by hash(case).",
    assumptions: &[
      "an inner subscribed to a hot input only sees events sent after its subscription (a subject that terminated while the inner was queued never completes that inner)",
      "merge_all(0) is not generated (quantifier starts at 1)",
    ],
    parts: vec![Part { name: "flatten", run: run_case, tape_len: 96, quick_cases: 1_000_000, thorough_cases: 20_000_000, exhaustive_depth: None, exhaustive_budget: 0, exh_quick: false }],
  }
}

#[derive(Clone, Debug, Hash, PartialEq, Eq)]
enum Inner {
  Cold(Vec<Ev>),
  Hot(usize),
}

#[derive(Clone, Debug, Hash)]
struct Case {
  op: Flat,
  inners: Vec<Inner>,
  /// cold outer: the selections it emits at subscription (then completes); None = hot outer on input 0
  cold_outer: Option<Vec<usize>>,
  pcase: PCase,
}

fn gen_case(c: &mut dyn Choices) -> Case {
  let k = 1 + c.pick(4);
  let op = match c.pick(11) {
    // limits far beyond the number of inners (documented as an upper bound)
    10 => Flat::MergeAll(*c.one_of(&[65536usize, 65537, 255, 256, 1 << 32, usize::MAX - 1])),
    0..=1 => Flat::MergeAll(1 + c.pick(2)),
    2..=3 => Flat::MergeAll(1 + c.pick(k + 1)),
    4..=5 => Flat::ConcatAll,
    6..=7 => Flat::ConcatMap,
    8 => Flat::Flatten,
    _ => Flat::FlatMap,
  };
  let mut inners = vec![];
  for j in 0..k {
    if c.pick(3) == 0 {
      let n = c.pick(3);
      let mut evs: Vec<Ev> = (0..n).map(|s| Ev::N(V::I(100 * (j as i64 + 1) + s as i64))).collect();
      evs.push(if c.pick(5) == 0 { Ev::Er(E(1 + j as u8)) } else { Ev::C });
      inners.push(Inner::Cold(evs));
    } else {
      inners.push(Inner::Hot(1 + j));
    }
  }
  let n_inputs = 1 + k;
  let cold_outer = if c.pick(4) == 0 { Some((0..c.pick(5)).map(|_| c.pick(k)).collect::<Vec<_>>()) } else { None };
  // script: outer selections, items / completions / errors of the hot inners, outer terminal
  let hot_inputs: Vec<usize> = inners.iter().filter_map(|i| if let Inner::Hot(x) = i { Some(*x) } else { None }).collect();
  let len = c.pick(15);
  let mut seq = vec![10i64; n_inputs];
  let mut script = vec![];
  let mut selected_hot: Vec<usize> = vec![]; // hot inputs in the order the outer selected them
  for _ in 0..len {
    let r = c.pick(20);
    let step = if r < 7 || hot_inputs.is_empty() {
      match c.pick(8) {
        0 => Step::Emit(0, Ev::C),
        1 => Step::Emit(0, if c.pick(3) == 0 { Ev::Er(E(9)) } else { Ev::C }),
        _ => {
          let j = c.pick(k);
          if let Inner::Hot(x) = &inners[j] {
            selected_hot.push(*x);
          }
          Step::Emit(0, Ev::N(V::I(j as i64)))
        }
      }
    } else {
      // prefer the hot inner that was selected first and is still running
      let i = if !selected_hot.is_empty() && c.flag() { selected_hot[0] } else { *c.one_of(&hot_inputs) };
      if r >= 13 {
        selected_hot.retain(|x| *x != i);
      }
      if r < 13 {
        seq[i] += 1;
        Step::Emit(i, Ev::N(V::I(100 * i as i64 + seq[i])))
      } else if r < 19 {
        Step::Emit(i, Ev::C)
      } else {
        Step::Emit(i, Ev::Er(E(i as u8)))
      }
    };
    script.push(step);
  }
  let inner_nodes: Vec<Node> = inners
    .iter()
    .map(|inn| {
      let src = match inn {
        Inner::Cold(evs) => Src::Create(evs.iter().map(|e| (0u8, e.clone())).collect()),
        Inner::Hot(i) => Src::Hot(*i),
      };
      Node::un(Un::TrackLive, Node::Src(src))
    })
    .collect();
  let outer = match &cold_outer {
    Some(sel) => Node::Src(Src::FromIter(sel.iter().map(|j| V::I(*j as i64)).collect())),
    None => Node::Src(Src::Hot(0)),
  };
  let threads = c.pick(3) == 0;
  // (appended picks, recorded tapes keep their meaning) one case in eight is "many": a long cold outer
  // (100..320 selections) so that a long queue builds up behind a hot head and then drains in a cascade
  let (outer, cold_outer) = if c.pick(8) == 7 {
    let n = 100 + c.pick(220);
    let head = c.pick(k);
    let filler = inners.iter().position(|i| matches!(i, Inner::Cold(_))).unwrap_or(c.pick(k));
    let mut sel = vec![head];
    sel.extend((0..n).map(|i| if i % 37 == 36 { head } else { filler }));
    (Node::Src(Src::FromIter(sel.iter().map(|j| V::I(*j as i64)).collect())), Some(sel))
  } else {
    (outer, cold_outer)
  };
  let pcase = PCase {
    node: Node::Flat(op, Box::new(outer), inner_nodes),
    kinds: vec![IKind::Subject; n_inputs],
    script,
    mode: SchedMode::Fifo,
    threads,
  };
  Case { op, inners, cold_outer, pcase }
}

fn limit(op: Flat) -> usize {
  match op {
    Flat::MergeAll(n) => n,
    Flat::ConcatAll | Flat::ConcatMap => 1,
    Flat::Flatten | Flat::FlatMap => usize::MAX,
  }
}

struct Sim {
  out: Vec<(i64, Ev)>,
  active: Vec<(usize, usize)>, // (instance number, inner index) in subscription order
  queue: VecDeque<(usize, usize)>,
  outer_done: bool,
  dead: bool,
  next_inst: usize,
  queued_started_by_completion: bool,
  max_active: usize,
}

impl Sim {
  fn start(&mut self, case: &Case, inst: (usize, usize), stamp: i64) {
    match &case.inners[inst.1] {
      Inner::Hot(_) => {
        self.active.push(inst);
        self.max_active = self.max_active.max(self.active.len());
      }
      Inner::Cold(evs) => {
        self.active.push(inst);
        self.max_active = self.max_active.max(self.active.len());
        for e in evs {
          if self.dead {
            return;
          }
          match e {
            Ev::N(v) => self.out.push((stamp, Ev::N(v.clone()))),
            Ev::Er(e) => {
              self.out.push((stamp, Ev::Er(e.clone())));
              self.dead = true;
            }
            Ev::C => self.inner_complete(case, inst, stamp),
          }
        }
      }
    }
  }
  fn inner_complete(&mut self, case: &Case, inst: (usize, usize), stamp: i64) {
    self.active.retain(|x| *x != inst);
    if let Some(nx) = self.queue.pop_front() {
      self.queued_started_by_completion = true;
      self.start(case, nx, stamp);
    } else if self.outer_done && self.active.is_empty() && !self.dead {
      self.out.push((stamp, Ev::C));
      self.dead = true;
    }
  }
  fn outer_item(&mut self, case: &Case, j: usize, lim: usize, stamp: i64) {
    let inst = (self.next_inst, j);
    self.next_inst += 1;
    if self.active.len() < lim {
      self.start(case, inst, stamp);
    } else {
      self.queue.push_back(inst);
    }
  }
  fn outer_complete(&mut self, stamp: i64) {
    self.outer_done = true;
    if self.active.is_empty() && self.queue.is_empty() && !self.dead {
      self.out.push((stamp, Ev::C));
      self.dead = true;
    }
  }
}

fn simulate(case: &Case) -> (Vec<(i64, Ev)>, bool, usize) {
  let lim = limit(case.op);
  let k = case.inners.len();
  let mut s = Sim { out: vec![], active: vec![], queue: VecDeque::new(), outer_done: false, dead: false, next_inst: 0, queued_started_by_completion: false, max_active: 0 };
  let mut input_done = vec![false; 1 + k];
  if let Some(sel) = &case.cold_outer {
    for j in sel {
      if !s.dead {
        s.outer_item(case, *j, lim, -1);
      }
    }
    if !s.dead {
      s.outer_complete(-1);
    }
  }
  for (st, step) in case.pcase.script.iter().enumerate() {
    let stamp = st as i64;
    let Step::Emit(i, ev) = step else { continue };
    if input_done[*i] {
      continue;
    }
    if ev.is_terminal() {
      input_done[*i] = true;
    }
    if s.dead {
      continue;
    }
    if *i == 0 {
      if case.cold_outer.is_some() {
        continue; // nobody listens to input 0
      }
      match ev {
        Ev::N(v) => s.outer_item(case, to_i(v).rem_euclid(k as i64) as usize, lim, stamp),
        Ev::C => s.outer_complete(stamp),
        Ev::Er(e) => {
          s.out.push((stamp, Ev::Er(e.clone())));
          s.dead = true;
        }
      }
    } else {
      // the instances subscribed to this hot input *before* this event, in subscription order
      let listeners: Vec<(usize, usize)> = s.active.iter().filter(|(_, j)| case.inners[*j] == Inner::Hot(*i)).cloned().collect();
      for inst in listeners {
        if s.dead {
          break;
        }
        match ev {
          Ev::N(v) => s.out.push((stamp, Ev::N(v.clone()))),
          Ev::Er(e) => {
            s.out.push((stamp, Ev::Er(e.clone())));
            s.dead = true;
          }
          Ev::C => s.inner_complete(case, inst, stamp),
        }
      }
    }
  }
  (s.out, s.queued_started_by_completion, s.max_active)
}

fn tl_short(t: &[(i64, Ev)]) -> String {
  t.iter().map(|(s, e)| format!("{}@{}", ev_short(e), s)).collect::<Vec<_>>().join(" ")
}

fn run_case(c: &mut dyn Choices, ctx: &Ctx) -> Outcome {
  let case = gen_case(c);
  let (expected, queued_started, _max_active) = simulate(&case);
  let res = run_pcase(&case.pcase, false);
  let lim = limit(case.op);
  let mut labels: Vec<&'static str> = vec![];
  labels.push(match case.op {
    Flat::MergeAll(_) => "op:merge_all",
    Flat::ConcatAll => "op:concat_all",
    Flat::Flatten => "op:flatten",
    Flat::FlatMap => "op:flat_map",
    Flat::ConcatMap => "op:concat_map",
  });
  if case.pcase.threads {
    labels.push("build:threads");
  }
  if queued_started {
    labels.push("queued-inner-started-by-completion");
  }
  if case.cold_outer.is_some() {
    labels.push("outer:cold");
  }
  if case.cold_outer.as_ref().map_or(false, |s| s.len() >= 100) {
    labels.push("many-inners");
  }
  if case.inners.iter().any(|i| matches!(i, Inner::Cold(_))) && case.inners.iter().any(|i| matches!(i, Inner::Hot(_))) {
    labels.push("mixed-cold-hot-inners");
  }
  let opname = format!("{:?}", case.op).split('(').next().unwrap().to_string();
  let verdict = match &res {
    Err(m) => Verdict::Violation {
      sig: format!("{}:{opname}", if m.contains("self-deadlock") { "deadlock" } else { "panic" }),
      detail: format!("pipeline panicked / blocked: {m}"),
    },
    Ok(tr) => {
      let act: Vec<(i64, Ev)> = tr.recs.iter().map(|r| (if r.step == usize::MAX { -1 } else { r.step as i64 }, r.ev.clone())).collect();
      // (ii) model-free invariants
      let items: Vec<i64> = act.iter().filter_map(|(_, e)| if let Ev::N(v) = e { Some(to_i(v)) } else { None }).collect();
      let mut inv: Option<String> = None;
      // hot items are unique by construction: never twice unless the same hot inner is subscribed twice
      if lim != usize::MAX && (tr.counters.max_live.max(0) as u128) > (lim as u128) {
        inv = Some(format!("limit: {} inner observables subscribed at once, limit {}", tr.counters.max_live, lim));
      }
      // per-inner order of hot items (sequence numbers increase)
      for i in 1..=case.inners.len() {
        let mine: Vec<i64> = items.iter().cloned().filter(|x| x / 100 == i as i64 && x % 100 >= 10).collect();
        let mut dedup = mine.clone();
        dedup.dedup();
        let mut sorted = dedup.clone();
        sorted.sort();
        if sorted != dedup {
          inv = Some(format!("order: items of hot inner {i} out of order: {mine:?}"));
        }
      }
      if let Some(msg) = inv {
        Verdict::Violation { sig: format!("invariant:{opname}"), detail: msg }
      } else if act != expected {
        let (ea, ee): (Vec<&Ev>, Vec<&Ev>) = (act.iter().map(|x| &x.1).collect(), expected.iter().map(|x| &x.1).collect());
        let kind = if ea == ee {
          "timing"
        } else if ea.iter().filter(|e| !e.is_terminal()).eq(ee.iter().filter(|e| !e.is_terminal())) {
          "terminal"
        } else {
          "items"
        };
        Verdict::Violation { sig: format!("{kind}:{opname}"), detail: format!("expected [{}] got [{}]", tl_short(&expected), tl_short(&act)) }
      } else {
        Verdict::Ok
      }
    }
  };
  let desc = if ctx.want_desc || matches!(verdict, Verdict::Violation { .. }) {
    let mut j = pcase_json(&case.pcase);
    j["inners"] = json!(case.inners.iter().map(|i| format!("{i:?}")).collect::<Vec<_>>());
    j["expected"] = json!(tl_short(&expected));
    j["delivered"] = res.as_ref().map(|t| json!(t.short())).unwrap_or_else(|m| json!({ "panic": m }));
    if let Ok(t) = &res {
      j["max_live_inner_subscriptions"] = json!(t.counters.max_live);
    }
    Some(j)
  } else {
    None
  };
  Outcome { verdict, nontrivial: queued_started, hash: hash_of(&case), labels, notes: vec![], desc }
}
