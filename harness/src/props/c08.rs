//! C08 — time and async sources emit exactly what and when they promise.
use crate::ast::*;
use crate::choice::{Choices, ChoicesExt};
use crate::common::*;
use crate::run::*;
use crate::value::*;
use serde_json::json;

use crate::vtime::{HOUR, TOL};

pub fn prop() -> Prop {
  Prop {
    id: "C08",
    rule: "case = (1..3 independent sources built at t=0 and subscribed at once, each with its own probe (one case in four: interval / timer sources are subscribed later, before a generated script step, and judged by the same oracle with times relative to their subscription): interval(p), interval_at(now+{-1,0,1,2,3}h, {1,2}h), timer(v,d), timer_at(v, now+{-1,1,2}h), from_future / from_future_result over a scripted future (k self-waking Pending polls, optional wait on the clock, value or error), from_stream / from_stream_result over a scripted stream (items, Pending, waits on the clock, error at position i, end; up to 40 ready items); p,d in {1,2,3,7} ticks; clock script of <= 10 steps: fire the next timer, jump by 1..20 ticks or hours, run the executor; executor prompt (FIFO after every firing), late (runs only at script steps) or any-ready-task-next). \
           Oracle per source: interval values are 0,1,2,... consecutive, t0 >= sub+p (interval_at: >= the instant - tolerance), t(k+1) >= t(k)+p, and with the prompt executor t(k) == sub+(k+1)p exactly (interval_at: first tick at the instant, later ones one period apart); timer: exactly [item, complete], not before due, exactly at due when prompt; futures / streams: delivered == scripted values (or error) then the terminal, nothing after, each item not before the clock wait before it, the stream is never polled after it ended. Non-trivial: a clock jump over >= 2 periods, or a Pending before a Ready, or >= 2 sources. Distinct by hash(case).",
    assumptions: &["tick = 1 ns virtual; _at instants are hour-scale offsets of the real Instant::now(), compared with a 10 minute tolerance"],
    parts: vec![Part { name: "sources", run: run_case, tape_len: 128, quick_cases: 600_000, thorough_cases: 12_000_000, exhaustive_depth: None, exhaustive_budget: 0, exh_quick: false }],
  }
}

#[derive(Clone, Debug, Hash)]
struct Case {
  srcs: Vec<TSrc>,
  script: Vec<Step>,
  mode: SchedMode,
  threads: bool,
  /// script step before which source i is subscribed (0 / missing: at the start); every source is built at t = 0
  sub_at: Vec<usize>,
  /// length of one tick in ns (1 unless the case has no hour-scale source: then sometimes 0.7 s or 1 s + 1 ns)
  unit: u64,
}

fn gen_stream(c: &mut dyn Choices, result: bool) -> Vec<SEv> {
  let long = c.pick(8) == 0;
  let n = if long { crate::ast::pick_size(c, 30, 12, &[65, 130, 260]) } else { c.pick(7) };
  let mut out = vec![];
  let mut id = 0;
  if n > 45 {
    // very long: all items ready (one pick per item would outrun the tape), optionally ended by an error
    for _ in 0..n {
      id += 1;
      out.push(SEv::Item(V::I(id)));
    }
    if result && c.pick(3) == 0 {
      out.push(SEv::Fail(E(5)));
    }
    return out;
  }
  for _ in 0..n {
    let r = c.pick(if long { 40 } else { 8 });
    out.push(if r == 0 {
      SEv::Pend
    } else if r == 1 {
      SEv::PendUntil(1 + c.pick(4) as u64)
    } else if r == 2 && result {
      out.push(SEv::Fail(E(3)));
      break;
    } else {
      id += 1;
      SEv::Item(V::I(id))
    });
  }
  out
}

fn gen_src(c: &mut dyn Choices) -> TSrc {
  let p = |c: &mut dyn Choices| *c.one_of(&[1u64, 2, 3, 7]);
  match c.pick(10) {
    0 | 1 => TSrc::Interval(p(c)),
    2 => TSrc::IntervalAt(*c.one_of(&[1i32, 2, 3, 0, -1]), 1 + c.pick(2) as u64),
    3 => TSrc::Timer(V::I(7), p(c)),
    4 => TSrc::TimerAt(V::I(8), *c.one_of(&[1i32, 2, -1])),
    5 => TSrc::Future(c.pick(3), if c.flag() { Some(1 + c.pick(4) as u64) } else { None }, V::I(5)),
    6 => TSrc::FutureResult(c.pick(3), if c.flag() { Some(1 + c.pick(4) as u64) } else { None }, if c.pick(3) == 0 { Err(E(2)) } else { Ok(V::I(6)) }),
    7 | 8 => TSrc::Stream(gen_stream(c, false)),
    _ => TSrc::StreamResult(gen_stream(c, true)),
  }
}

fn gen_case(c: &mut dyn Choices) -> Case {
  let n = 1 + c.pick(3);
  let srcs: Vec<TSrc> = (0..n).map(|_| gen_src(c)).collect();
  // hour-scale jumps only when no tick-scale periodic source would fire millions of times
  let hours = srcs.iter().any(|s| matches!(s, TSrc::IntervalAt(..) | TSrc::TimerAt(..))) && !srcs.iter().any(|s| matches!(s, TSrc::Interval(_)));
  let mode = match c.pick(3) {
    0 => SchedMode::Fifo,
    1 => SchedMode::Lazy,
    _ => SchedMode::AnyOrder,
  };
  let len = c.pick(11);
  let mut script = vec![];
  for _ in 0..len {
    script.push(match c.pick(8) {
      0..=2 => Step::FireNext,
      3 => Step::Advance(1 + c.pick(3) as u64),
      4 => Step::Advance(if hours && c.flag() { HOUR * (1 + c.pick(3) as u64) } else { 4 + c.pick(17) as u64 }),
      _ => {
        if mode == SchedMode::AnyOrder {
          Step::RunReady(c.pick(4))
        } else {
          Step::Run
        }
      }
    });
  }
  let threads = c.pick(4) == 0;
  // (appended picks) one case in four: interval / timer sources are built at t = 0 but subscribed later in the script
  let mut sub_at = vec![];
  if len > 1 && c.pick(4) == 3 {
    for s in &srcs {
      sub_at.push(if matches!(s, TSrc::Interval(_) | TSrc::IntervalAt(..) | TSrc::Timer(..) | TSrc::TimerAt(..)) { c.pick(len) } else { 0 });
    }
  }
  // (appended pick) a quarter of the cases without hour-scale instants measure time in units of 0.7 s or 1 s + 1 ns
  let at_free = !srcs.iter().any(|s| matches!(s, TSrc::IntervalAt(..) | TSrc::TimerAt(..)));
  let unit = if at_free { *c.one_of(&[1u64, 1, 1, 1, 1, 1, 700_000_000, 1_000_000_001]) } else { 1 };
  Case { srcs, script, mode, threads, sub_at, unit }
}

fn check_src(case: &Case, idx: usize, src: &TSrc, recs: &[Rec], stats: (usize, usize), req: &[u64], step_times: &[u64]) -> Result<(), (String, String)> {
  let prompt = case.mode == SchedMode::Fifo;
  let shown = || recs.iter().map(|r| format!("{}@t={}", ev_short(&r.ev), r.vt)).collect::<Vec<_>>().join(" ");
  // grammar
  if let Some(p) = recs.iter().position(|r| r.ev.is_terminal()) {
    if p + 1 != recs.len() {
      return Err((format!("grammar:{}", name(src)), format!("source #{idx}: notification after the terminal: {}", shown())));
    }
  }
  match src {
    TSrc::Interval(_) | TSrc::IntervalAt(..) => {
      let (first_min, first_exact, period, tol) = match src {
        TSrc::Interval(p) => (*p, *p, *p, 0),
        TSrc::IntervalAt(h, ph) => {
          let at = if *h > 0 { *h as u64 * HOUR } else { 0 };
          (at.saturating_sub(TOL), at, *ph * HOUR, TOL)
        }
        _ => unreachable!(),
      };
      let mut prev: Option<u64> = None;
      for (k, r) in recs.iter().enumerate() {
        let Ev::N(v) = &r.ev else { return Err((format!("terminal:{}", name(src)), format!("source #{idx}: an interval never terminates, got {}", shown()))) };
        if to_i(v) != k as i64 {
          return Err((format!("values:{}", name(src)), format!("source #{idx}: expected consecutive integers from 0, got {}", shown())));
        }
        match prev {
          None => {
            if r.vt < first_min {
              return Err((format!("early:{}", name(src)), format!("source #{idx}: first tick at t={} before {}", r.vt, first_min)));
            }
            if prompt && (r.vt + tol < first_exact || r.vt > first_exact + 0) {
              return Err((format!("first-tick:{}", name(src)), format!("source #{idx}: with a prompt executor the first tick is due at t={first_exact} (-{tol} tolerance) but came at t={}", r.vt)));
            }
          }
          Some(p) => {
            if r.vt < p + period {
              return Err((format!("early:{}", name(src)), format!("source #{idx}: tick {k} at t={} less than one period ({period}) after the previous at t={p}", r.vt)));
            }
            if prompt && r.vt != p + period {
              return Err((format!("period:{}", name(src)), format!("source #{idx}: with a prompt executor tick {k} is due at t={} but came at t={}", p + period, r.vt)));
            }
          }
        }
        prev = Some(r.vt);
      }
      // late executor (single FIFO pool that runs only at `run` steps): a tick is
      // delivered at the first executor run at or after its due time; the next one
      // is due one period after that delivery
      if case.mode == SchedMode::Lazy && tol == 0 {
        let mut due = first_exact;
        let mut exp: Vec<u64> = vec![];
        for r in run_times(case, step_times) {
          if due <= r {
            exp.push(r);
            due = r + period;
          }
        }
        let got: Vec<u64> = recs.iter().map(|r| r.vt).collect();
        if got != exp {
          return Err((format!("late-run:{}", name(src)), format!("source #{idx}: executor ran at t={:?}; ticks expected at t={exp:?} (first due one period after subscription, each next one period after the previous delivery) but came at t={got:?}", run_times(case, step_times))));
        }
      }
      Ok(())
    }
    TSrc::Timer(v, _) | TSrc::TimerAt(v, _) => {
      let (due_min, due, tol) = match src {
        TSrc::Timer(_, d) => (*d, *d, 0),
        TSrc::TimerAt(_, h) => {
          let at = if *h > 0 { *h as u64 * HOUR } else { 0 };
          (at.saturating_sub(TOL), at, TOL)
        }
        _ => unreachable!(),
      };
      if recs.is_empty() {
        return Ok(());
      }
      let evs: Vec<Ev> = recs.iter().map(|r| r.ev.clone()).collect();
      if evs != vec![Ev::N(v.clone()), Ev::C] {
        return Err((format!("sequence:{}", name(src)), format!("source #{idx}: a timer emits its item once and completes, got {}", shown())));
      }
      if recs[0].vt < due_min {
        return Err((format!("early:{}", name(src)), format!("source #{idx}: item at t={} before the due time {}", recs[0].vt, due_min)));
      }
      if prompt && (recs[0].vt + tol < due || recs[0].vt > due) {
        return Err((format!("late:{}", name(src)), format!("source #{idx}: with a prompt executor the item is due at t={due} but came at t={}", recs[0].vt)));
      }
      let _ = req;
      Ok(())
    }
    TSrc::Future(_, until, v) => {
      let exp = vec![Ev::N(v.clone()), Ev::C];
      check_async(idx, src, recs, &exp, &[until.unwrap_or(0)], stats, shown())
    }
    TSrc::FutureResult(_, until, r) => {
      let exp = match r {
        Ok(v) => vec![Ev::N(v.clone()), Ev::C],
        Err(e) => vec![Ev::Er(e.clone())],
      };
      check_async(idx, src, recs, &exp, &[until.unwrap_or(0)], stats, shown())
    }
    TSrc::Stream(s) | TSrc::StreamResult(s) => {
      let result = matches!(src, TSrc::StreamResult(_));
      let mut exp = vec![];
      let mut not_before = vec![];
      let mut t = 0u64;
      let mut ended = false;
      for e in s {
        match e {
          SEv::Item(v) => {
            exp.push(Ev::N(v.clone()));
            not_before.push(t);
          }
          SEv::Fail(e) => {
            exp.push(if result { Ev::Er(e.clone()) } else { Ev::C });
            not_before.push(t);
            ended = true;
            break;
          }
          SEv::Pend => {}
          SEv::PendUntil(d) => t += d, // lower bound: each wait starts no earlier than the previous one ended
        }
      }
      if !ended {
        exp.push(Ev::C);
        not_before.push(t);
      }
      check_async(idx, src, recs, &exp, &not_before, stats, shown())
    }
  }
}

/// delivered must be a prefix of `exp` (the script may not have been driven to its end),
/// each event not before its lower time bound, and no poll after the end
fn check_async(idx: usize, src: &TSrc, recs: &[Rec], exp: &[Ev], not_before: &[u64], stats: (usize, usize), shown: String) -> Result<(), (String, String)> {
  let got: Vec<Ev> = recs.iter().map(|r| r.ev.clone()).collect();
  if got.len() > exp.len() || got[..] != exp[..got.len()] {
    return Err((format!("sequence:{}", name(src)), format!("source #{idx}: scripted {:?}, delivered {}", exp.iter().map(ev_short).collect::<Vec<_>>(), shown)));
  }
  for (i, r) in recs.iter().enumerate() {
    let nb = not_before.get(i).or(not_before.last()).cloned().unwrap_or(0);
    if r.vt < nb {
      return Err((format!("early:{}", name(src)), format!("source #{idx}: event #{i} delivered at t={} but its future/stream was not ready before t={nb}", r.vt)));
    }
  }
  if stats.1 > 0 {
    return Err((format!("polled-after-end:{}", name(src)), format!("source #{idx}: polled {} times after it had ended", stats.1)));
  }
  Ok(())
}

/// virtual times at which the (late) executor runs: every `run` step and the final run
fn run_times(case: &Case, step_times: &[u64]) -> Vec<u64> {
  let mut out = vec![];
  for (k, s) in case.script.iter().enumerate() {
    if matches!(s, Step::Run) {
      out.push(step_times[k]);
    }
  }
  out.push(*step_times.last().unwrap_or(&0));
  out
}

fn name(s: &TSrc) -> &'static str {
  match s {
    TSrc::Interval(_) => "interval",
    TSrc::IntervalAt(..) => "interval_at",
    TSrc::Timer(..) => "timer",
    TSrc::TimerAt(..) => "timer_at",
    TSrc::Future(..) => "from_future",
    TSrc::FutureResult(..) => "from_future_result",
    TSrc::Stream(_) => "from_stream",
    TSrc::StreamResult(_) => "from_stream_result",
  }
}

/// with a prompt / finally-run executor and enough clock, async sources must have delivered everything
fn completeness(case: &Case, idx: usize, src: &TSrc, recs: &[Rec], total_advance: u64) -> Result<(), (String, String)> {
  let need: Option<(u64, usize)> = match src {
    TSrc::Future(_, until, _) => Some((until.unwrap_or(0), 2)),
    TSrc::FutureResult(_, until, r) => Some((until.unwrap_or(0), if r.is_ok() { 2 } else { 1 })),
    TSrc::Stream(s) | TSrc::StreamResult(s) => {
      let mut t = 0;
      let mut n = 0;
      let mut ended = false;
      for e in s {
        match e {
          SEv::Item(_) => n += 1,
          SEv::Fail(_) => {
            n += 1;
            ended = true;
            break;
          }
          SEv::PendUntil(d) => t += d,
          SEv::Pend => {}
        }
      }
      if !ended {
        n += 1;
      }
      // only claim completeness when no clock wait is involved (waits chain from the poll time, which the script decides)
      if t == 0 {
        Some((0, n))
      } else {
        None
      }
    }
    _ => None,
  };
  if let Some((t, n)) = need {
    if case.mode != SchedMode::AnyOrder && t == 0 && total_advance >= t && recs.len() < n {
      return Err((format!("stalled:{}", name(src)), format!("source #{idx}: every scripted value was ready and the executor ran until stalled, but only {} of {} notifications were delivered", recs.len(), n)));
    }
  }
  Ok(())
}

fn run_case(c: &mut dyn Choices, ctx: &Ctx) -> Outcome {
  let case = gen_case(c);
  let res = guarded_strict(|| {
    crate::vtime::set_unit(case.unit);
    if case.threads {
      crate::threads::exec_sources(&case.srcs, &case.script, case.mode, &case.sub_at).into_iter().map(|t| (t.recs, (t.stats.polls, t.stats.polls_after_end), t.requested_at_subscribe, t.step_times, t.sub_time)).collect::<Vec<_>>()
    } else {
      crate::local::exec_sources(&case.srcs, &case.script, case.mode, &case.sub_at).into_iter().map(|t| (t.recs, (t.stats.polls, t.stats.polls_after_end), t.requested_at_subscribe, t.step_times, t.sub_time)).collect::<Vec<_>>()
    }
  });
  let total_advance: u64 = case.script.iter().map(|s| if let Step::Advance(n) = s { *n } else { 0 }).sum();
  let mut labels: Vec<&'static str> = case.srcs.iter().map(name).collect();
  labels.sort();
  labels.dedup();
  labels.push(match case.mode {
    SchedMode::Fifo => "mode:fifo-prompt",
    SchedMode::Lazy => "mode:late",
    SchedMode::AnyOrder => "mode:anyorder",
  });
  let jump = case.script.iter().any(|s| matches!(s, Step::Advance(n) if *n >= 4));
  let pend_first = case.srcs.iter().any(|s| match s {
    TSrc::Future(p, u, _) => *p > 0 || u.is_some(),
    TSrc::FutureResult(p, u, _) => *p > 0 || u.is_some(),
    TSrc::Stream(v) | TSrc::StreamResult(v) => v.iter().any(|e| matches!(e, SEv::Pend | SEv::PendUntil(_))),
    _ => false,
  });
  let nt = jump || pend_first || case.srcs.len() >= 2;
  if case.sub_at.iter().any(|k| *k > 0) {
    labels.push("built-early-subscribed-later");
  }
  let verdict = match &res {
    Err(m) => Verdict::Violation { sig: format!("panic:{}", labels[0]), detail: m.clone() },
    Ok(trs) => {
      let mut v = Verdict::Ok;
      for (i, (recs, stats, req, st, sub_time)) in trs.iter().enumerate() {
        let k = case.sub_at.get(i).cloned().unwrap_or(0);
        let r = if k == 0 {
          check_src(&case, i, &case.srcs[i], recs, *stats, req, st).and_then(|_| completeness(&case, i, &case.srcs[i], recs, total_advance))
        } else {
          // subscribed before step k at t = sub_time: seen from its subscription the source lives in the rest of the
          // script - same oracle, times relative to the subscription
          let view = Case { srcs: case.srcs.clone(), script: case.script[k..].to_vec(), mode: case.mode, threads: case.threads, sub_at: vec![], unit: case.unit };
          let rel: Vec<Rec> = recs.iter().map(|r| Rec { ev: r.ev.clone(), step: r.step, vt: r.vt.saturating_sub(*sub_time) }).collect();
          let st_rel: Vec<u64> = st[k..].iter().map(|t| t.saturating_sub(*sub_time)).collect();
          if recs.iter().any(|r| r.vt < *sub_time) {
            Err((format!("before-subscription:{}", name(&case.srcs[i])), format!("source #{i} was subscribed at t={sub_time} but delivered {:?}", recs.iter().map(|r| format!("{}@t={}", ev_short(&r.ev), r.vt)).collect::<Vec<_>>())))
          } else {
            check_src(&view, i, &case.srcs[i], &rel, *stats, req, &st_rel).map_err(|(s, d)| (s, format!("(built at t=0, subscribed at t={sub_time}, times below are relative to the subscription) {d}")))
          }
        };
        if let Err((sig, detail)) = r {
          v = Verdict::Violation { sig, detail };
          break;
        }
      }
      v
    }
  };
  let desc = if ctx.want_desc || matches!(verdict, Verdict::Violation { .. }) {
    Some(json!({
      "sources": case.srcs.iter().map(|s| format!("{s:?}")).collect::<Vec<_>>(),
      "clock_script": script_short(&case.script), "tick_ns": case.unit, "subscribed_before_step(0 = at the start)": case.sub_at, "executor": format!("{:?}", case.mode), "build": if case.threads {"threads"} else {"local"},
      "delivered": res.as_ref().map(|t| json!(t.iter().map(|(r,_,_,_,_)| r.iter().map(|x| format!("{}@t={}", ev_short(&x.ev), x.vt)).collect::<Vec<_>>()).collect::<Vec<_>>())).unwrap_or_else(|m| json!({"panic": m})),
    }))
  } else {
    None
  };
  Outcome { verdict, nontrivial: nt, hash: hash_of(&case), labels, notes: vec![], desc }
}
