//! C04 — multi-input combinators follow the interleaving of their inputs.
//! Oracle: reference state machines of `model.rs` fed with the merged timeline.
use crate::ast::*;
use crate::choice::{Choices, ChoicesExt};
use crate::common::*;
use crate::model::{self, Inputs, Opts, Tl};
use crate::props::c01::pcase_json;
use crate::run::*;
use crate::value::*;
use serde_json::json;

pub fn prop() -> Prop {
  Prop {
    id: "C04",
    rule: "case = (operator in merge/zip/combine_latest/with_latest_from/take_until/skip_until/sample/buffer, local or _threads form (per-node flag in the local build, or the all-thread-safe build); both inputs hot (Subject or create-handle), optionally behind a chain of 0..2 C03 operators; two scripts of <= 4 events each (items, complete, error at any position, events after the terminal; one case in eight: 20..60 (or 70 / 135 / 260 / 330) items per side interleaved in runs of 1..40 (or 66 / 130 / 300)); one interleaving of the two scripts chosen by the tape). \
           Oracle: delivered (step, notification) list == reference state machine for that operator over the merged timeline (buffer: notifier completion may flush+complete or be ignored). Non-trivial: both inputs emitted an item and the timeline alternates between the inputs at least once, or a terminal lies strictly inside the timeline. Distinct by hash(case). \
           Part `all-merges` enumerates every operator x all script pairs of <= 4+4 events over a 2-letter alphabet x every interleaving (complete in both tiers). \
           Part `trees`: a combinator inside a pipeline - 0..2 C03 operators below each input and 0..2 above the combinator, in half of the cases a second combinator nested as its left or right input (three distinct hot inputs, scripts of <= 3 events each + post-terminal events, one generated three-way interleaving); oracle: the composed reference functions (every combination of the permitted readings of take(0), skip_last and buffer's notifier completion is accepted). \
           Part `wlf-feedback`: with_latest_from (both forms) whose subscriber, from inside its own callback, sends a new value into the *secondary* input while a pair is being delivered (the one re-entrant emission the combinators support: the secondary side only stores a value); the arrival is ordered after the pair being delivered, so every later main item must be combined with it.",
    assumptions: &[
      "take_until / skip_until ignore the notifier's error and completion (separate error type; statement: switch exactly at the notifier's first item)",
      "zip / combine_latest complete when both inputs have completed (the library's and the statement's reading for merge; the statement is silent for zip)",
      "sample releases the pending item once more when the sampler completes (documented)",
    ],
    parts: vec![
      Part { name: "random", run: run_random, tape_len: 64, quick_cases: 1_000_000, thorough_cases: 20_000_000, exhaustive_depth: None, exhaustive_budget: 0, exh_quick: false },
      Part { name: "all-merges", run: run_enum, tape_len: 32, quick_cases: 200_000, thorough_cases: 1_000_000, exhaustive_depth: Some(24), exhaustive_budget: 60_000_000, exh_quick: true },
      Part { name: "trees", run: run_tree, tape_len: 96, quick_cases: 600_000, thorough_cases: 12_000_000, exhaustive_depth: None, exhaustive_budget: 0, exh_quick: false },
      Part { name: "wlf-feedback", run: run_wlf_feedback, tape_len: 32, quick_cases: 100_000, thorough_cases: 1_000_000, exhaustive_depth: None, exhaustive_budget: 0, exh_quick: false },
    ],
  }
}

fn gen_side_script(c: &mut dyn Choices, max: usize, alphabet: usize, offset: i64, post: bool) -> Vec<Ev> {
  if max > 8 {
    // long side: 20..60 items from a few picks, then maybe a terminal
    let n = pick_size(c, 20, 41, &[70, 135, 260, 330]);
    let mut out: Vec<Ev> = gen_long_items(c, n, 50).into_iter().map(|v| Ev::N(V::I(offset * 100 + to_i(&v)))).collect();
    match c.pick(3) {
      0 => {}
      1 => out.push(Ev::C),
      _ => out.push(Ev::Er(E(1 + (offset / 10) as u8))),
    }
    return out;
  }
  let n = c.pick(max + 1);
  let mut out = vec![];
  let mut terminated = false;
  for _ in 0..n {
    let ev = match c.pick(2 + alphabet) {
      0 => Ev::C,
      1 => Ev::Er(E(1 + (offset / 10) as u8)),
      k => Ev::N(V::I(offset + (k - 2) as i64)),
    };
    let t = ev.is_terminal();
    out.push(ev);
    if t {
      if terminated || !post {
        break;
      }
      terminated = true;
    }
  }
  out
}

/// interleave two scripts; every choice is one pick (long scripts: runs decided by a few picks)
fn gen_merge(c: &mut dyn Choices, a: &[Ev], b: &[Ev]) -> Vec<Step> {
  let (mut i, mut j) = (0, 0);
  let mut out = vec![];
  let long = a.len() + b.len() > 16;
  let (ra, rb) = if long { (pick_size(c, 1, 40, &[66, 130, 300]), pick_size(c, 1, 40, &[66, 130, 300])) } else { (1, 1) };
  let mut run = 0usize;
  let mut side_a = true;
  while i < a.len() || j < b.len() {
    let take_a = if i >= a.len() {
      false
    } else if j >= b.len() {
      true
    } else if long {
      // alternate in runs of ra / rb events
      if run == 0 {
        side_a = !side_a;
        run = if side_a { ra } else { rb };
      }
      run -= 1;
      side_a
    } else {
      c.pick(2) == 0
    };
    if take_a {
      out.push(Step::Emit(0, a[i].clone()));
      i += 1;
    } else {
      out.push(Step::Emit(1, b[j].clone()));
      j += 1;
    }
  }
  out
}

fn gen_case(c: &mut dyn Choices, enumerated: bool) -> PCase {
  let op = gen_bin(c);
  let (a, b) = if enumerated {
    (gen_side_script(c, 4, 2, 0, false), gen_side_script(c, 4, 2, 10, false))
  } else {
    (gen_side_script(c, 4, 3, 0, true), gen_side_script(c, 4, 3, 10, true))
  };
  let script = gen_merge(c, &a, &b);
  let (kinds, threads, tf) = if enumerated {
    (vec![IKind::Subject, IKind::Subject], false, false)
  } else {
    let k = |c: &mut dyn Choices| if c.pick(3) == 0 { IKind::Create } else { IKind::Subject };
    (vec![k(c), k(c)], c.pick(3) == 0, c.flag())
  };
  let leaf = |i: usize, k: IKind| Node::Src(if k == IKind::Create { Src::HotCreate(i) } else { Src::Hot(i) });
  let mut na = leaf(0, kinds[0]);
  let mut nb = leaf(1, kinds[1]);
  if !enumerated {
    for _ in 0..c.pick(3) {
      na = Node::un(gen_un_c03(c, 3, 3), na);
    }
    for _ in 0..c.pick(3) {
      nb = Node::un(gen_un_c03(c, 3, 3), nb);
    }
  }
  let mut script = script;
  // (appended picks, recorded tapes keep their meaning) one case in eight: long inputs instead
  // (queues / buffers / latest-value cells at scale)
  if !enumerated && c.pick(8) == 7 {
    let (a, b) = (gen_side_script(c, 60, 3, 0, true), gen_side_script(c, 60, 3, 10, true));
    script = gen_merge(c, &a, &b);
  }
  PCase { node: Node::Bin(op, tf, Box::new(na), Box::new(nb)), kinds, script, mode: SchedMode::Fifo, threads }
}

pub fn inputs_of(case: &PCase) -> Inputs {
  let n = case.kinds.len();
  let mut hot: Vec<Tl> = vec![vec![]; n];
  for (k, s) in case.script.iter().enumerate() {
    if let Step::Emit(i, ev) = s {
      hot[*i % n].push((k as i64, ev.clone()));
    }
  }
  Inputs { hot, beh_init: vec![V::I(0); n] }
}

pub fn trace_tl(tr: &Trace) -> Tl {
  tr.recs.iter().map(|r| (if r.step == usize::MAX { -1 } else { r.step as i64 }, r.ev.clone())).collect()
}

fn tl_short(t: &Tl) -> String {
  t.iter().map(|(s, e)| format!("{}@{}", ev_short(e), s)).collect::<Vec<_>>().join(" ")
}

fn profile(case: &PCase) -> (bool, Vec<&'static str>) {
  let sides: Vec<usize> = case.script.iter().filter_map(|s| if let Step::Emit(i, _) = s { Some(*i) } else { None }).collect();
  let item_from = |k: usize| case.script.iter().any(|s| matches!(s, Step::Emit(i, Ev::N(_)) if *i == k));
  let alternates = sides.windows(2).filter(|w| w[0] != w[1]).count() >= 2;
  let first_term = case.script.iter().position(|s| matches!(s, Step::Emit(_, e) if e.is_terminal()));
  let inner_term = first_term.map_or(false, |p| p + 1 < case.script.len());
  let mut labels = vec![];
  if alternates {
    labels.push("alternating");
  }
  if inner_term {
    labels.push("terminal-inside");
  }
  if case.threads {
    labels.push("build:threads");
  }
  if let Node::Bin(op, tf, _, _) = &case.node {
    if *tf {
      labels.push("node:_threads");
    }
    labels.push(match op {
      Bin::Merge => "op:merge",
      Bin::Zip => "op:zip",
      Bin::CombineLatest => "op:combine_latest",
      Bin::WithLatestFrom => "op:with_latest_from",
      Bin::TakeUntil => "op:take_until",
      Bin::SkipUntil => "op:skip_until",
      Bin::Sample => "op:sample",
      Bin::Buffer => "op:buffer",
    });
  }
  ((item_from(0) && item_from(1) && alternates) || inner_term, labels)
}

fn judge(case: &PCase, ctx: &Ctx) -> Outcome {
  let inputs = inputs_of(case);
  let Some(expected) = model::eval(&case.node, &inputs, Opts::default()) else { return Outcome::discard() };
  let (nt, labels) = profile(case);
  let res = run_pcase(case, false);
  let opname = if let Node::Bin(op, ..) = &case.node { format!("{op:?}") } else { String::new() };
  let verdict = match &res {
    Err(m) => Verdict::Violation { sig: format!("panic:{opname}"), detail: format!("pipeline panicked: {m}") },
    Ok(tr) => {
      let act = trace_tl(tr);
      let mut ok = act == expected;
      let mut undefined_reading = false;
      if !ok {
        for o in [
          Opts { buffer_ignore_notifier_complete: true, ..Opts::default() },
          Opts { skip_last_lazy: true, ..Opts::default() },
          Opts { skip_last_lazy: true, buffer_ignore_notifier_complete: true, ..Opts::default() },
          Opts { take0_immediate: true, ..Opts::default() },
          Opts { take0_at_first_item: true, ..Opts::default() },
          Opts { take0_at_first_item: true, skip_last_lazy: true, ..Opts::default() },
        ] {
          match model::eval(&case.node, &inputs, o) {
            Some(e) if e == act => ok = true,
            None => undefined_reading = true,
            _ => {}
          }
        }
      }
      if ok {
        Verdict::Ok
      } else if undefined_reading {
        // (see run_tree) a permitted reading has no defined interleaving for this case: inconclusive
        return Outcome { labels: vec!["reading-without-defined-interleaving"], ..Outcome::discard() };
      } else {
        let (ea, ee) = (model::strip(&act), model::strip(&expected));
        let kind = if ea == ee {
          "timing"
        } else if ea.iter().filter(|e| !e.is_terminal()).eq(ee.iter().filter(|e| !e.is_terminal())) {
          "terminal"
        } else {
          "items"
        };
        Verdict::Violation { sig: format!("{kind}:{opname}"), detail: format!("expected [{}] got [{}]", tl_short(&expected), tl_short(&act)) }
      }
    }
  };
  let desc = if ctx.want_desc || matches!(verdict, Verdict::Violation { .. }) {
    let mut j = pcase_json(case);
    j["expected"] = json!(tl_short(&expected));
    j["delivered"] = res.as_ref().map(|t| json!(t.short())).unwrap_or_else(|m| json!({ "panic": m }));
    Some(j)
  } else {
    None
  };
  Outcome { verdict, nontrivial: nt, hash: hash_of(case), labels, notes: vec![], desc }
}

/// a combinator inside a pipeline: unary chains below and above it, optionally a second combinator as one input
fn gen_tree(c: &mut dyn Choices) -> PCase {
  let k = |c: &mut dyn Choices| if c.pick(3) == 0 { IKind::Create } else { IKind::Subject };
  let shape = c.pick(4); // 0,1: one combinator; 2: nested left; 3: nested right
  let n_in = if shape < 2 { 2 } else { 3 };
  let kinds: Vec<IKind> = (0..n_in).map(|_| k(c)).collect();
  let threads = c.pick(3) == 0;
  let leaf = |i: usize, k: IKind| Node::Src(if k == IKind::Create { Src::HotCreate(i) } else { Src::Hot(i) });
  fn chain(c: &mut dyn Choices, mut n: Node, max: usize) -> Node {
    for _ in 0..c.pick(max + 1) {
      n = Node::un(gen_un_c03(c, 3, 3), n);
    }
    n
  }
  let node = match shape {
    0 | 1 => {
      let a = chain(c, leaf(0, kinds[0]), 2);
      let b = chain(c, leaf(1, kinds[1]), 2);
      let tf = c.flag();
      Node::Bin(gen_bin(c), tf, Box::new(a), Box::new(b))
    }
    2 => {
      let tf = c.flag();
      let inner = Node::Bin(gen_bin(c), tf, Box::new(chain(c, leaf(0, kinds[0]), 1)), Box::new(chain(c, leaf(1, kinds[1]), 1)));
      let inner = chain(c, inner, 1);
      let tf = c.flag();
      Node::Bin(gen_bin(c), tf, Box::new(inner), Box::new(chain(c, leaf(2, kinds[2]), 1)))
    }
    _ => {
      let tf = c.flag();
      let inner = Node::Bin(gen_bin(c), tf, Box::new(chain(c, leaf(1, kinds[1]), 1)), Box::new(chain(c, leaf(2, kinds[2]), 1)));
      let inner = chain(c, inner, 1);
      let tf = c.flag();
      Node::Bin(gen_bin(c), tf, Box::new(chain(c, leaf(0, kinds[0]), 1)), Box::new(inner))
    }
  };
  let node = chain(c, node, 2);
  let sides: Vec<Vec<Ev>> = (0..n_in).map(|i| gen_side_script(c, 3, 3, 10 * i as i64, true)).collect();
  // one interleaving of the n_in scripts: each step picks among the sides that still have events
  let mut pos = vec![0usize; n_in];
  let mut script = vec![];
  loop {
    let open: Vec<usize> = (0..n_in).filter(|&i| pos[i] < sides[i].len()).collect();
    if open.is_empty() {
      break;
    }
    let i = open[c.pick(open.len())];
    script.push(Step::Emit(i, sides[i][pos[i]].clone()));
    pos[i] += 1;
  }
  PCase { node, kinds, script, mode: SchedMode::Fifo, threads }
}

fn bin_names(n: &Node, out: &mut Vec<String>) {
  match n {
    Node::Bin(op, _, a, b) => {
      out.push(format!("{op:?}"));
      bin_names(a, out);
      bin_names(b, out);
    }
    Node::Un(_, _, i) => bin_names(i, out),
    _ => {}
  }
}

fn run_tree(c: &mut dyn Choices, ctx: &Ctx) -> Outcome {
  let case = gen_tree(c);
  let mut bins = vec![];
  bin_names(&case.node, &mut bins);
  if ctx.known("items:SkipUntil") && bins.iter().any(|b| b == "SkipUntil") {
    return Outcome { labels: vec!["excluded-known"], ..Outcome::discard() };
  }
  let inputs = inputs_of(&case);
  let Some(expected) = model::eval(&case.node, &inputs, Opts::default()) else { return Outcome::discard() };
  let res = run_pcase(&case, false);
  let names = bins.join(">");
  let first_term = case.script.iter().position(|s| matches!(s, Step::Emit(_, e) if e.is_terminal()));
  let inner_term = first_term.map_or(false, |p| p + 1 < case.script.len());
  let (mut has_un_above, mut depth_un) = (matches!(case.node, Node::Un(..)), 0);
  case.node.visit(&mut |n| {
    if matches!(n, Node::Un(..)) {
      depth_un += 1
    }
  });
  has_un_above = has_un_above && depth_un > 0;
  let mut labels = vec![if bins.len() > 1 { "tree:nested" } else { "tree:single" }];
  if has_un_above {
    labels.push("tree:operators-above");
  }
  if inner_term {
    labels.push("terminal-inside");
  }
  if case.threads {
    labels.push("build:threads");
  }
  let items_sides = (0..case.kinds.len()).filter(|&k| case.script.iter().any(|s| matches!(s, Step::Emit(i, Ev::N(_)) if *i == k))).count();
  let nt = (items_sides >= 2 && (bins.len() > 1 || depth_un > 0)) || inner_term;
  let verdict = match &res {
    Err(m) => Verdict::Violation { sig: format!("panic:tree:{names}"), detail: format!("pipeline panicked: {m}") },
    Ok(tr) => {
      let act = trace_tl(tr);
      let mut ok = act == expected;
      // a permitted reading under which two inputs of a combinator act in the same step has no defined interleaving: the
      // reference cannot say what that reading predicts, so a difference is then inconclusive, not a violation
      let mut undefined_reading = false;
      if !ok {
        'outer: for sl in [false, true] {
          for bi in [false, true] {
            for t0 in 0..3 {
              let o = Opts { skip_last_lazy: sl, buffer_ignore_notifier_complete: bi, take0_immediate: t0 == 1, take0_at_first_item: t0 == 2 };
              match model::eval(&case.node, &inputs, o) {
                Some(e) if e == act => {
                  ok = true;
                  break 'outer;
                }
                None => undefined_reading = true,
                _ => {}
              }
            }
          }
        }
      }
      if ok {
        Verdict::Ok
      } else if undefined_reading {
        return Outcome { labels: vec!["tree:reading-without-defined-interleaving"], ..Outcome::discard() };
      } else {
        let (ea, ee) = (model::strip(&act), model::strip(&expected));
        let kind = if ea == ee {
          "timing"
        } else if ea.iter().filter(|e| !e.is_terminal()).eq(ee.iter().filter(|e| !e.is_terminal())) {
          "terminal"
        } else {
          "items"
        };
        Verdict::Violation { sig: format!("{kind}:tree:{names}"), detail: format!("expected [{}] got [{}]", tl_short(&expected), tl_short(&act)) }
      }
    }
  };
  let desc = if ctx.want_desc || matches!(verdict, Verdict::Violation { .. }) {
    let mut j = pcase_json(&case);
    j["expected"] = json!(tl_short(&expected));
    j["delivered"] = res.as_ref().map(|t| json!(t.short())).unwrap_or_else(|m| json!({ "panic": m }));
    Some(j)
  } else {
    None
  };
  Outcome { verdict, nontrivial: nt, hash: hash_of(&case), labels, notes: vec![], desc }
}

/// with_latest_from whose consumer feeds the secondary input from inside its callback
fn run_wlf_feedback(c: &mut dyn Choices, ctx: &Ctx) -> Outcome {
  let tf = c.flag();
  let threads = c.pick(3) == 0;
  let n = 2 + c.pick(6);
  let mut script = vec![];
  let mut main_vals = vec![];
  let (mut na, mut nb) = (0i64, 100i64);
  for _ in 0..n {
    if c.pick(3) == 0 {
      script.push(Step::Emit(0, Ev::N(V::I(nb))));
      nb += 1;
    } else {
      script.push(Step::Emit(1, Ev::N(V::I(na))));
      main_vals.push(na);
      na += 1;
    }
  }
  match c.pick(4) {
    0 => script.push(Step::Emit(1, Ev::C)),
    1 => script.push(Step::Emit(1, Ev::Er(E(1)))),
    2 => script.push(Step::Emit(0, Ev::Er(E(2)))),
    _ => {}
  }
  let trig: Vec<i64> = main_vals.iter().copied().filter(|_| c.flag()).collect();
  // hot input 0 is the secondary (`from`) side: it is the input the probe's feedback goes to
  let node = Node::Bin(Bin::WithLatestFrom, tf, Box::new(Node::Src(Src::Hot(1))), Box::new(Node::Src(Src::Hot(0))));
  let case = PCase { node, kinds: vec![IKind::Subject, IKind::Subject], script, mode: SchedMode::Fifo, threads };
  // reference: sequential semantics, the fed-back value arrives right after the pair that triggered it
  let mut expected: Tl = vec![];
  let mut latest: Option<V> = None;
  let mut fed = 0;
  for (k, st) in case.script.iter().enumerate() {
    let Step::Emit(i, ev) = st else { continue };
    match (i, ev) {
      (0, Ev::N(v)) => latest = Some(v.clone()),
      (1, Ev::N(a)) => {
        if let Some(b) = &latest {
          expected.push((k as i64, Ev::N(pair(a.clone(), b.clone()))));
          if trig.contains(&to_i(a)) {
            latest = Some(V::I(to_i(a) + 5000));
            fed += 1;
          }
        }
      }
      (_, Ev::Er(e)) => {
        expected.push((k as i64, Ev::Er(e.clone())));
        break;
      }
      (1, Ev::C) => {
        expected.push((k as i64, Ev::C));
        break;
      }
      _ => {}
    }
  }
  let res = crate::common::run_pcase_fb(&case, false, &trig);
  let verdict = match &res {
    Err(m) => Verdict::Violation { sig: "panic:WithLatestFrom:feedback".into(), detail: format!("pipeline panicked: {m}") },
    Ok(tr) => {
      let act = trace_tl(tr);
      if act == expected {
        Verdict::Ok
      } else {
        Verdict::Violation { sig: "items:WithLatestFrom:feedback".into(), detail: format!("expected [{}] got [{}] (feedback triggers {:?})", tl_short(&expected), tl_short(&act), trig) }
      }
    }
  };
  let mut labels = vec!["op:with_latest_from", "feedback"];
  if fed > 0 {
    labels.push("feedback:value-replaced-inside-callback");
  }
  let desc = if ctx.want_desc || matches!(verdict, Verdict::Violation { .. }) {
    let mut j = pcase_json(&case);
    j["feedback_triggers"] = json!(trig);
    j["expected"] = json!(tl_short(&expected));
    j["delivered"] = res.as_ref().map(|t| json!(t.short())).unwrap_or_else(|m| json!({ "panic": m }));
    Some(j)
  } else {
    None
  };
  Outcome { verdict, nontrivial: fed > 0 && expected.len() > fed, hash: hash_of(&(&case, &trig)), labels, notes: vec![], desc }
}

fn run_random(c: &mut dyn Choices, ctx: &Ctx) -> Outcome {
  let case = gen_case(c, false);
  if ctx.known("items:SkipUntil") && matches!(case.node, Node::Bin(Bin::SkipUntil, ..)) {
    return Outcome { labels: vec!["excluded-known"], ..Outcome::discard() };
  }
  judge(&case, ctx)
}
fn run_enum(c: &mut dyn Choices, ctx: &Ctx) -> Outcome {
  let case = gen_case(c, true);
  if ctx.known("items:SkipUntil") && matches!(case.node, Node::Bin(Bin::SkipUntil, ..)) {
    return Outcome { labels: vec!["excluded-known"], ..Outcome::discard() };
  }
  judge(&case, ctx)
}
