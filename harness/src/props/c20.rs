//! C20 — group_by sends every item to exactly one group, in order.
//! Oracle: per-group filter of the source + announcement order + terminal
//! fan-out, computed from the script by list code; flattening must be the identity.
use crate::ast::*;
use crate::choice::{Choices, ChoicesExt};
use crate::common::*;
use crate::run::*;
use crate::value::*;
use serde_json::json;

pub fn prop() -> Prop {
  Prop {
    id: "C20",
    rule: "case = (source: cold `create` script or hot Subject; 0..8 items over {0..3} (one case in eight: 64..160 items over up to 30 keys); terminal none/complete/error plus up to 2 events after it; key function const / identity / mod 2 / mod 3; groups backed by Subject (local build) or SubjectThreads (thread-safe build); a probe is attached to every group inside the callback that announces it - or, in half of the cases, groups with key % 3 == 0 are left without a subscriber, or odd keys are subscribed through take(1)). \
           Oracle: groups are announced once per distinct key in first-appearance order; the global log restricted to items equals the source sequence, each item logged under the group of its key at the step it was sent and after that group's announcement; every announced group and the stream of groups get the source's terminal exactly once and nothing afterwards; part `flatten`: group_by(k).flat_map(identity) behind 0..2 C03 operators equals the reference interpreter. Non-trivial: >= 2 keys whose items interleave. Distinct by hash(case). Part `small` enumerates all inputs of length <= 5 over {0,1,2} exhaustively.",
    assumptions: &["the order in which different groups receive the terminal is not constrained (hash-map order)"],
    parts: vec![
      Part { name: "groups", run: run_groups, tape_len: 32, quick_cases: 800_000, thorough_cases: 16_000_000, exhaustive_depth: None, exhaustive_budget: 0, exh_quick: false },
      Part { name: "small", run: run_small, tape_len: 16, quick_cases: 0, thorough_cases: 0, exhaustive_depth: Some(12), exhaustive_budget: 2_000_000, exh_quick: true },
      Part { name: "flatten", run: run_flatten, tape_len: 48, quick_cases: 400_000, thorough_cases: 8_000_000, exhaustive_depth: None, exhaustive_budget: 0, exh_quick: false },
      Part { name: "taken", run: run_taken, tape_len: 32, quick_cases: 300_000, thorough_cases: 6_000_000, exhaustive_depth: None, exhaustive_budget: 0, exh_quick: false },
    ],
  }
}

#[derive(Clone, Debug, Hash)]
struct Case {
  hot: bool,
  threads: bool,
  key: KeyF,
  script: Vec<Ev>,
  /// 0: a probe on every group; 1: groups with key % 3 == 0 get no subscriber; 2: odd keys through take(1)
  policy: u8,
}

fn gen_case(c: &mut dyn Choices, small: bool) -> Case {
  let hot = c.flag();
  let key = if small { *c.one_of(&[KeyF::Id, KeyF::Mod2, KeyF::Const]) } else { gen_keyf(c) };
  let n = c.pick(if small { 6 } else { 9 });
  let mut script: Vec<Ev> = (0..n).map(|_| Ev::N(gen_v(c, if small { 3 } else { 4 }))).collect();
  match c.pick(3) {
    0 => {}
    1 => script.push(Ev::C),
    _ => script.push(Ev::Er(E(1))),
  }
  if !small && script.last().map_or(false, |e| e.is_terminal()) {
    for _ in 0..c.pick(3) {
      script.push(match c.pick(3) {
        0 => Ev::C,
        1 => Ev::Er(E(2)),
        _ => Ev::N(gen_v(c, 4)),
      });
    }
  }
  let threads = if small { false } else { c.pick(3) == 0 };
  // (appended picks, recorded tapes keep their meaning) subscriber policy, and one case in eight is long:
  // the items are replaced by 64..160 items over up to 30 keys
  let mut policy = 0u8;
  if !small {
    policy = *c.one_of(&[0u8, 0, 1, 2]);
    if c.pick(8) == 7 {
      let m = crate::ast::pick_size(c, 64, 97, &[260, 520]);
      let alpha = *c.one_of(&[30usize, 12, 4, 100, 300]);
      let tail: Vec<Ev> = script.iter().skip_while(|e| !e.is_terminal()).cloned().collect();
      script = gen_long_items(c, m, alpha).into_iter().map(Ev::N).collect();
      script.extend(tail);
    }
  }
  Case { hot, threads, key, script, policy }
}

fn check_groups(case: &Case, log: &[(i64, usize, Ev)]) -> Result<(), (String, String)> {
  // the source as the group_by operator sees it: cut at the first terminal
  let cutp = case.script.iter().position(|e| e.is_terminal()).map(|p| p + 1).unwrap_or(case.script.len());
  let src: Vec<(usize, Ev)> = case.script[..cutp].iter().cloned().enumerate().collect();
  let step_of = |k: usize| if case.hot { k } else { usize::MAX };
  let mut keys_in_order: Vec<i64> = vec![];
  for (_, e) in &src {
    if let Ev::N(v) = e {
      let k = case.key.eval(v);
      if !keys_in_order.contains(&k) {
        keys_in_order.push(k);
      }
    }
  }
  let term = src.last().filter(|(_, e)| e.is_terminal()).cloned();
  // 1. announcements
  let ann: Vec<i64> = log.iter().filter(|(g, _, e)| *g == -1 && !e.is_terminal()).map(|(_, _, e)| if let Ev::N(v) = e { to_i(v) } else { 0 }).collect();
  if ann != keys_in_order {
    return Err(("announce".into(), format!("groups announced {ann:?}, expected {keys_in_order:?}")));
  }
  // which groups have a probe, and does it leave after the first item?
  let subscribed = |k: i64| !(case.policy == 1 && k.rem_euclid(3) == 0);
  let take_one = |k: i64| case.policy == 2 && k.rem_euclid(2) == 1;
  // 2. items: global order == source order, under the right key, at the right step
  let mut seen_first: Vec<i64> = vec![];
  let exp_items: Vec<(i64, usize, Ev)> = src
    .iter()
    .filter_map(|(k, e)| {
      if let Ev::N(v) = e {
        let key = case.key.eval(v);
        if !subscribed(key) {
          return None;
        }
        if take_one(key) {
          if seen_first.contains(&key) {
            return None;
          }
          seen_first.push(key);
        }
        Some((key, step_of(*k), e.clone()))
      } else {
        None
      }
    })
    .collect();
  let got_items: Vec<(i64, usize, Ev)> = log.iter().filter(|(g, _, e)| *g != -1 && !e.is_terminal()).cloned().collect();
  if got_items != exp_items {
    return Err(("items".into(), format!("items delivered to groups {got_items:?}, expected {exp_items:?}")));
  }
  // 3. a group's announcement precedes its first item
  for k in &keys_in_order {
    let a = log.iter().position(|(g, _, e)| *g == -1 && *e == Ev::N(V::I(*k)));
    let f = log.iter().position(|(g, _, _)| g == k);
    if let (Some(a), Some(f)) = (a, f) {
      if a > f {
        return Err(("announce-late".into(), format!("group {k} received an item before it was announced")));
      }
    }
  }
  // 4. terminals: every group and the outer stream get the source terminal exactly once, last
  let mut owners: Vec<i64> = keys_in_order.clone();
  owners.push(-1);
  for o in owners {
    let mine: Vec<&(i64, usize, Ev)> = log.iter().filter(|(g, _, _)| *g == o).collect();
    let terms: Vec<&Ev> = mine.iter().map(|x| &x.2).filter(|e| e.is_terminal()).collect();
    if o != -1 && !subscribed(o) {
      if !mine.is_empty() {
        return Err(("unsubscribed-group".into(), format!("group {o} has no subscriber but {mine:?} was logged")));
      }
      continue;
    }
    if o != -1 && take_one(o) {
      // first item, then the completion made by take(1)
      if mine.len() != 2 || mine[1].2 != Ev::C || mine[0].1 != mine[1].1 {
        return Err(("take1-group".into(), format!("group {o} subscribed through take(1) received {mine:?}")));
      }
      continue;
    }
    match &term {
      None => {
        if !terms.is_empty() {
          return Err(("terminal-invented".into(), format!("owner {o} got a terminal although the source did not terminate")));
        }
      }
      Some((k, t)) => {
        if terms.len() != 1 || terms[0] != t {
          return Err(("terminal".into(), format!("owner {o} (group key, -1 = stream of groups) got terminals {terms:?}, expected exactly [{t:?}]")));
        }
        let last = mine.last().unwrap();
        if !last.2.is_terminal() || last.1 != step_of(*k) {
          return Err(("terminal-order".into(), format!("owner {o}: terminal not last or at the wrong step: {mine:?}")));
        }
      }
    }
  }
  Ok(())
}

fn judge(case: &Case, ctx: &Ctx) -> Outcome {
  let res = guarded_strict(|| {
    if case.threads {
      crate::threads::exec_group_by(case.hot, &case.script, case.key, case.policy)
    } else {
      crate::local::exec_group_by(case.hot, &case.script, case.key, case.policy)
    }
  });
  // non-trivial: >= 2 keys with interleaved items
  let keys: Vec<i64> = case.script.iter().take_while(|e| !e.is_terminal()).filter_map(|e| if let Ev::N(v) = e { Some(case.key.eval(v)) } else { None }).collect();
  let mut runs = keys.clone();
  runs.dedup();
  let mut distinct = keys.clone();
  distinct.sort();
  distinct.dedup();
  let nt = distinct.len() >= 2 && runs.len() > distinct.len();
  let mut labels = vec![if case.hot { "src:hot" } else { "src:cold" }];
  if case.threads {
    labels.push("groups:SubjectThreads");
  }
  match case.script.iter().find(|e| e.is_terminal()) {
    Some(Ev::Er(_)) => labels.push("terminal:error"),
    Some(_) => labels.push("terminal:complete"),
    None => labels.push("terminal:none"),
  }
  let verdict = match &res {
    Err(m) => Verdict::Violation { sig: "panic:group_by".into(), detail: m.clone() },
    Ok(log) => match check_groups(case, log) {
      Ok(()) => Verdict::Ok,
      Err((kind, detail)) => Verdict::Violation { sig: format!("{kind}:group_by"), detail },
    },
  };
  let desc = if ctx.want_desc || matches!(verdict, Verdict::Violation { .. }) {
    Some(json!({
      "source": if case.hot {"hot Subject"} else {"cold create"}, "key": format!("{:?}", case.key), "script": evs_short(&case.script),
      "groups": if case.threads {"SubjectThreads"} else {"Subject"},
      "log(group|-1=outer, step, event)": res.as_ref().map(|l| json!(l.iter().map(|(g,s,e)| format!("{}:{}@{}", g, ev_short(e), if *s==usize::MAX {-1} else {*s as i64})).collect::<Vec<_>>())).unwrap_or_else(|m| json!({"panic": m})),
    }))
  } else {
    None
  };
  Outcome { verdict, nontrivial: nt, hash: hash_of(case), labels, notes: vec![], desc }
}

fn run_groups(c: &mut dyn Choices, ctx: &Ctx) -> Outcome {
  judge(&gen_case(c, false), ctx)
}
fn run_small(c: &mut dyn Choices, ctx: &Ctx) -> Outcome {
  judge(&gen_case(c, true), ctx)
}

fn run_flatten(c: &mut dyn Choices, ctx: &Ctx) -> Outcome {
  use crate::model::{self, Opts};
  let kind = if c.flag() { IKind::Subject } else { IKind::Create };
  let hot = c.pick(4) != 0;
  let n = c.pick(9);
  let mut evs: Vec<Ev> = (0..n).map(|_| Ev::N(gen_v(c, 4))).collect();
  match c.pick(3) {
    0 => {}
    1 => evs.push(Ev::C),
    _ => evs.push(Ev::Er(E(1))),
  }
  let mut node = if hot {
    Node::Src(if kind == IKind::Create { Src::HotCreate(0) } else { Src::Hot(0) })
  } else {
    Node::Src(Src::Create(evs.iter().map(|e| (0u8, e.clone())).collect()))
  };
  for _ in 0..c.pick(2) {
    node = Node::un(gen_un_c03(c, n, 4), node);
  }
  node = Node::un(Un::GroupByFlatten(gen_keyf(c)), node);
  for _ in 0..c.pick(2) {
    node = Node::un(gen_un_c03(c, n, 4), node);
  }
  let script: Vec<Step> = if hot { evs.iter().map(|e| Step::Emit(0, e.clone())).collect() } else { vec![] };
  let case = PCase { node, kinds: vec![kind], script, mode: SchedMode::Fifo, threads: c.pick(3) == 0 };
  let inputs = crate::props::c04::inputs_of(&case);
  let Some(expected) = model::eval(&case.node, &inputs, Opts::default()) else { return Outcome::discard() };
  let res = run_pcase(&case, false);
  let verdict = match &res {
    Err(m) => Verdict::Violation { sig: "panic:group_by+flat_map".into(), detail: m.clone() },
    Ok(tr) => {
      let act = crate::props::c04::trace_tl(tr);
      let mut ok = act == expected;
      for o in [Opts { skip_last_lazy: true, ..Opts::default() }, Opts { take0_immediate: true, ..Opts::default() }, Opts { skip_last_lazy: true, take0_immediate: true, ..Opts::default() }, Opts { take0_at_first_item: true, ..Opts::default() }, Opts { skip_last_lazy: true, take0_at_first_item: true, ..Opts::default() }] {
        if !ok && model::eval(&case.node, &inputs, o).map_or(false, |e| e == act) {
          ok = true;
        }
      }
      if ok {
        Verdict::Ok
      } else {
        Verdict::Violation { sig: "flatten-differs:group_by+flat_map".into(), detail: format!("expected {:?} got {:?}", model::strip(&expected), model::strip(&act)) }
      }
    }
  };
  let items = evs.iter().filter(|e| !e.is_terminal()).count();
  let desc = if ctx.want_desc || matches!(verdict, Verdict::Violation { .. }) {
    let mut j = crate::props::c01::pcase_json(&case);
    j["delivered"] = res.as_ref().map(|t| json!(t.short())).unwrap_or_else(|m| json!({ "panic": m }));
    Some(j)
  } else {
    None
  };
  Outcome { verdict, nontrivial: items >= 2, hash: hash_of(&case), labels: vec!["part:flatten"], notes: vec![], desc }
}

// ------------------------------------------------ the stream of groups is cut by take(n) ------

/// `hot source . group_by(k) . take(n)`: the consumer of the stream of groups leaves after n groups (n around the number
/// of distinct keys, so that the announcement of a group is what ends the stream of groups); every group that *was*
/// announced keeps a probe
fn run_taken(c: &mut dyn Choices, ctx: &Ctx) -> Outcome {
  let create_handle = c.flag();
  let threads = c.pick(3) == 0;
  let key = gen_keyf(c);
  let m = c.pick(9);
  let mut script: Vec<Ev> = (0..m).map(|_| Ev::N(gen_v(c, 4))).collect();
  match c.pick(3) {
    0 => {}
    1 => script.push(Ev::C),
    _ => script.push(Ev::Er(E(1))),
  }
  let cutp = script.iter().position(|e| e.is_terminal()).map(|p| p + 1).unwrap_or(script.len());
  let mut keys_in_order: Vec<i64> = vec![];
  for e in &script[..cutp] {
    if let Ev::N(v) = e {
      let k = key.eval(v);
      if !keys_in_order.contains(&k) {
        keys_in_order.push(k);
      }
    }
  }
  let n = c.pick(keys_in_order.len() + 2);
  let announced: Vec<i64> = keys_in_order.iter().copied().take(n).collect();
  let res = guarded_strict(|| {
    if threads {
      crate::threads::exec_group_by_take(create_handle, &script, key, n)
    } else {
      crate::local::exec_group_by_take(create_handle, &script, key, n)
    }
  });
  let term = script[..cutp].last().filter(|e| e.is_terminal()).cloned();
  let check = |log: &[(i64, usize, Ev)]| -> Result<(), (String, String)> {
    let ann: Vec<i64> = log.iter().filter(|(g, _, e)| *g == -1 && !e.is_terminal()).map(|(_, _, e)| if let Ev::N(v) = e { to_i(v) } else { 0 }).collect();
    if ann != announced {
      return Err(("taken-announce".into(), format!("groups announced through take({n}): {ann:?}, expected {announced:?}")));
    }
    // every item whose group was announced reaches that group, once, in source order, at its own step - including the
    // item that opened the last announced group and everything that follows the end of the stream of groups
    let exp_items: Vec<(i64, usize, Ev)> = script[..cutp]
      .iter()
      .enumerate()
      .filter_map(|(k, e)| if let Ev::N(v) = e { Some((key.eval(v), k, e.clone())) } else { None })
      .filter(|(g, _, _)| announced.contains(g))
      .collect();
    let got_items: Vec<(i64, usize, Ev)> = log.iter().filter(|(g, _, e)| *g != -1 && !e.is_terminal()).cloned().collect();
    if got_items != exp_items {
      return Err(("taken-items".into(), format!("items delivered to the announced groups {got_items:?}, expected {exp_items:?}")));
    }
    // terminals: at most one per owner, the source's own (the stream of groups: or the completion made by take), last
    let mut owners = announced.clone();
    owners.push(-1);
    for o in owners {
      let mine: Vec<&(i64, usize, Ev)> = log.iter().filter(|(g, _, _)| *g == o).collect();
      let terms: Vec<&Ev> = mine.iter().map(|x| &x.2).filter(|e| e.is_terminal()).collect();
      if terms.len() > 1 {
        return Err(("taken-terminal".into(), format!("owner {o} got {} terminals", terms.len())));
      }
      if let Some(t) = terms.first() {
        if !mine.last().unwrap().2.is_terminal() {
          return Err(("taken-terminal-order".into(), format!("owner {o}: something was delivered after the terminal: {mine:?}")));
        }
        if o != -1 && Some(*t) != term.as_ref() {
          return Err(("taken-terminal".into(), format!("group {o} got {t:?}, the source's terminal is {term:?}")));
        }
      }
    }
    Ok(())
  };
  let verdict = match &res {
    Err(m) => Verdict::Violation { sig: "panic:group_by+take".into(), detail: m.clone() },
    Ok(log) => match check(log) {
      Ok(()) => Verdict::Ok,
      Err((kind, detail)) => Verdict::Violation { sig: format!("{kind}:group_by"), detail },
    },
  };
  let ended_by_announcement = n >= 1 && n <= keys_in_order.len();
  let mut labels = vec!["part:taken", if create_handle { "src:create-handle" } else { "src:hot" }];
  if ended_by_announcement {
    labels.push("taken:announcement-ends-the-stream-of-groups");
  }
  let items_after = ended_by_announcement && {
    let last = announced[n - 1];
    script[..cutp].iter().filter(|e| matches!(e, Ev::N(v) if key.eval(v) == last)).count() >= 2
  };
  let desc = if ctx.want_desc || matches!(verdict, Verdict::Violation { .. }) {
    Some(json!({
      "source": if create_handle {"hot create handle"} else {"hot Subject"}, "key": format!("{key:?}"), "script": evs_short(&script), "take": n,
      "groups": if threads {"SubjectThreads"} else {"Subject"},
      "log(group|-1=outer, step, event)": res.as_ref().map(|l| json!(l.iter().map(|(g,s,e)| format!("{}:{}@{}", g, ev_short(e), if *s==usize::MAX {-1} else {*s as i64})).collect::<Vec<_>>())).unwrap_or_else(|m| json!({"panic": m})),
    }))
  } else {
    None
  };
  Outcome { verdict, nontrivial: items_after, hash: hash_of(&(create_handle, threads, key, &script, n)), labels, notes: vec![], desc }
}
