//! C17 — is_closed() is sound and monotone; composites tear down late additions.
use crate::ast::*;
use crate::choice::{Choices, ChoicesExt};
use crate::common::*;
use crate::props::c01::{gen_pcase, maybe_lengthen, op_names, pcase_json, script_profile};
use crate::run::*;
use serde_json::json;

pub fn prop() -> Prop {
  Prop {
    id: "C17",
    rule: "part `pipelines`: the C01 pipeline/script generator (depth <= 4, whole catalogue, so that unit, subscriber, pair, composite, task-handle, ref-count, finalizer and boxed subscriptions all occur; all scheduler models; local and thread-safe builds); is_closed() of the returned subscription is sampled after subscription, after every script step and after the final drain. Oracle: once a sample is true no later sample is false and no notification is delivered in any later step. Non-trivial: samples were taken both before and after the last delivered notification and a notification was delivered. \
           part `composite`: histories of <= 8 operations (append a probe subscription / clone a handle / unsubscribe through a handle / is_closed / a child finishes / retain) on MultiSubscription and MultiSubscriptionThreads, exhaustively up to length 5. Oracle: unsubscribe() unsubscribes every child exactly once; afterwards every handle reports closed; a child appended after the unsubscription has been unsubscribed exactly once when append() returns; no child is unsubscribed before; is_closed() never goes from true back to false. Non-trivial: an append after unsubscribe, or is_closed sampled before and after an unsubscribe. Distinct by hash(case).",
    assumptions: &["boxed subscriptions cannot be cloned, so 'remaining handles' are only examined on the composite types"],
    parts: vec![
      Part { name: "pipelines", run: run_pipeline, tape_len: 160, quick_cases: 1_000_000, thorough_cases: 20_000_000, exhaustive_depth: None, exhaustive_budget: 0, exh_quick: false },
      Part { name: "composite", run: run_composite, tape_len: 32, quick_cases: 300_000, thorough_cases: 3_000_000, exhaustive_depth: Some(11), exhaustive_budget: 20_000_000, exh_quick: false },
    ],
  }
}

fn run_pipeline(c: &mut dyn Choices, ctx: &Ctx) -> Outcome {
  let mut case = gen_pcase(c, 4, true);
  maybe_lengthen(c, &mut case);
  let res = run_pcase(&case, true);
  let (_, mut labels) = script_profile(&case, res.as_ref().ok());
  let mut nt = false;
  let verdict = match &res {
    Err(_) => {
      labels.push("panic");
      Verdict::Ok
    }
    Ok(tr) => {
      let norm = |s: usize| if s == usize::MAX { -1i64 } else { s as i64 };
      let first_true = tr.closed.iter().find(|(_, c)| *c).map(|(s, _)| norm(*s));
      let last_rec = tr.recs.iter().map(|r| norm(r.step)).max();
      if let Some(lr) = last_rec {
        nt = tr.closed.iter().any(|(s, _)| norm(*s) < lr) && tr.closed.iter().any(|(s, _)| norm(*s) >= lr);
      }
      if tr.closed.iter().any(|(_, c)| *c) {
        labels.push("reported-closed");
      }
      match first_true {
        None => Verdict::Ok,
        Some(ft) => {
          if let Some(r) = tr.recs.iter().find(|r| norm(r.step) > ft) {
            Verdict::Violation {
              sig: format!("closed-then-delivered:{}", op_names(&case.node)),
              detail: format!("is_closed() returned true after step {ft} but {} was delivered during step {}: {}", crate::value::ev_short(&r.ev), norm(r.step), tr.short()),
            }
          } else if tr.closed.iter().any(|(s, c)| norm(*s) > ft && !*c) {
            Verdict::Violation { sig: format!("closed-then-open:{}", op_names(&case.node)), detail: format!("is_closed() samples (step, value): {:?}", tr.closed.iter().map(|(s, c)| (norm(*s), *c)).collect::<Vec<_>>()) }
          } else {
            Verdict::Ok
          }
        }
      }
    }
  };
  let desc = if ctx.want_desc || matches!(verdict, Verdict::Violation { .. }) {
    let mut j = pcase_json(&case);
    j["delivered"] = res.as_ref().map(|t| json!(t.short())).unwrap_or_else(|m| json!({ "panic": m }));
    if let Ok(t) = &res {
      j["is_closed_samples(step,value)"] = json!(t.closed.iter().map(|(s, c)| (if *s == usize::MAX { -1 } else { *s as i64 }, *c)).collect::<Vec<_>>());
    }
    Some(j)
  } else {
    None
  };
  Outcome { verdict, nontrivial: nt, hash: hash_of(&case), labels, notes: vec![], desc }
}

fn gen_cop(c: &mut dyn Choices) -> COp {
  match c.pick(9) {
    0 | 1 => COp::Append,
    2 => COp::CloneHandle(c.pick(3)),
    3 => COp::Unsub(c.pick(3)),
    4 | 5 => COp::IsClosed(c.pick(3)),
    6 => COp::CloseChild(c.pick(3)),
    7 => COp::Retain(c.pick(3)),
    // (new alternative at the high end of the pick: recorded tapes keep their meaning)
    _ => COp::AppendReentrant,
  }
}

fn run_composite(c: &mut dyn Choices, ctx: &Ctx) -> Outcome {
  let threads = c.flag();
  let n = c.pick(9);
  let ops: Vec<COp> = (0..n).map(|_| gen_cop(c)).collect();
  let res = guarded(|| {
    if threads {
      crate::threads::exec_composite(&ops).into_iter().map(|(k, o)| (k, conv_t(o))).collect::<Vec<_>>()
    } else {
      crate::local::exec_composite(&ops).into_iter().map(|(k, o)| (k, conv_l(o))).collect::<Vec<_>>()
    }
  });
  // model
  let unsub_step = ops.iter().position(|o| matches!(o, COp::Unsub(_)));
  let append_after = unsub_step.map_or(false, |u| ops[u + 1..].iter().any(|o| matches!(o, COp::Append | COp::AppendReentrant)));
  let sampled_around = unsub_step.map_or(false, |u| ops[..u].iter().any(|o| matches!(o, COp::IsClosed(_))) && ops[u + 1..].iter().any(|o| matches!(o, COp::IsClosed(_))));
  let mut labels: Vec<&'static str> = vec![if threads { "MultiSubscriptionThreads" } else { "MultiSubscription" }];
  if append_after {
    labels.push("append-after-unsubscribe");
  }
  if unsub_step.map_or(false, |u| ops[..u].iter().any(|o| matches!(o, COp::AppendReentrant))) {
    labels.push("append-during-teardown");
  }
  let relax_monotone = ctx.known("composite:not-monotone");
  let verdict = match &res {
    Err(m) => Verdict::Violation { sig: "panic:composite".into(), detail: m.clone() },
    Ok(obs) => {
      let mut v = Verdict::Ok;
      let mut seen_true = false;
      let mut n_children_at_step: Vec<usize> = vec![];
      let mut nchild = 0;
      for o in &ops {
        if matches!(o, COp::Append) {
          nchild += 1;
        }
        if matches!(o, COp::AppendReentrant) {
          nchild += 2; // the child and the subscription it will add during its own teardown
        }
        n_children_at_step.push(nchild);
      }
      for (k, o) in obs {
        let unsubscribed = unsub_step.map_or(false, |u| *k >= u);
        match o {
          Obs::IsClosed(b) => {
            if unsubscribed && !*b {
              v = Verdict::Violation { sig: "composite:open-after-unsubscribe".into(), detail: format!("step {k}: a handle reports is_closed() == false after the composite was unsubscribed") };
              break;
            }
            if seen_true && !*b && !(relax_monotone && !unsubscribed) {
              v = Verdict::Violation { sig: "composite:not-monotone".into(), detail: format!("step {k}: is_closed() returned false after an earlier true") };
              break;
            }
            if *b && !(relax_monotone && !unsubscribed) {
              seen_true = true;
            }
          }
          Obs::Children(counts) => {
            for (ci, cnt) in counts.iter().enumerate() {
              let expect = if unsubscribed { 1 } else { 0 };
              if *cnt != expect {
                let kind = if *cnt > expect { "extra-unsubscribe" } else if ci < n_children_at_step[unsub_step.unwrap_or(0)] && unsubscribed && unsub_step.map_or(false, |u| n_children_at_step[u] > ci) { "child-not-unsubscribed" } else { "late-addition-left-running" };
                v = Verdict::Violation { sig: format!("composite:{kind}"), detail: format!("after step {k}: child #{ci} was unsubscribed {cnt} time(s), expected {expect} (composite unsubscribed: {unsubscribed})") };
                break;
              }
            }
            if !matches!(v, Verdict::Ok) {
              break;
            }
          }
        }
      }
      v
    }
  };
  let desc = if ctx.want_desc || matches!(verdict, Verdict::Violation { .. }) {
    Some(json!({ "type": labels[0], "history": ops.iter().map(|o| format!("{o:?}")).collect::<Vec<_>>(), "observed": res.as_ref().map(|o| json!(o.iter().map(|(k,o)| format!("{k}:{o:?}")).collect::<Vec<_>>())).unwrap_or_else(|m| json!({"panic": m})) }))
  } else {
    None
  };
  Outcome { verdict, nontrivial: append_after || sampled_around, hash: hash_of(&(threads, &ops)), labels, notes: vec![], desc }
}

#[derive(Debug, Clone)]
enum Obs {
  IsClosed(bool),
  Children(Vec<usize>),
}
fn conv_l(o: crate::local::CObs) -> Obs {
  match o {
    crate::local::CObs::IsClosed(_, b) => Obs::IsClosed(b),
    crate::local::CObs::Children(c) => Obs::Children(c),
  }
}
fn conv_t(o: crate::threads::CObs) -> Obs {
  match o {
    crate::threads::CObs::IsClosed(_, b) => Obs::IsClosed(b),
    crate::threads::CObs::Children(c) => Obs::Children(c),
  }
}
