//! C10 — thread-safe variants serialise delivery and cannot deadlock.
//! Engine T: 2..3 threads, each with a short script, run under an owned schedule
//! (random preemption lists with shrinking; exhaustive <= 2 preemptions).
use crate::choice::{Choices, ChoicesExt};
use crate::engine_t::{self, Verdict as TV};
use crate::run::*;
use crate::tworld::*;
use rxrust::prelude::*;
use serde_json::json;

pub fn prop() -> Prop {
  Prop {
    id: "C10",
    rule: "case = (pipeline in SubjectThreads / merge_threads / zip_threads / combine_latest_threads / merge_all_threads / take_until_threads / share_threads / observe_on_threads / delay_threads over two shared SubjectThreads inputs, with 1..2 probes subscribed up front; 2..3 threads each running a script of <= 4 operations: next / complete / error on an input, subscribe a further probe, unsubscribe a subscription, (scheduler pipelines) run a queued task or advance the clock; schedule = list of <= 3 preemptions (global yield step -> thread); yield points = every MutArc lock acquisition + one inside every probe callback). Only one thread runs at a time; a blocked lock hands the baton on. Part `exhaustive` enumerates every schedule with <= 2 preemptions for generated (pipeline, scripts). \
           Oracle: no probe callback is entered while another thread is inside the same probe; two probes subscribed to the same subject up front receive the items they both got in the same relative order; every thread finishes (controller verdicts: deadlock, lost wake-up, panic). Non-trivial: a preemption was taken strictly inside an API call (between the call's first yield point and its return). Distinct by hash(pipeline, scripts, schedule).",
    assumptions: &[
      "interleavings at lock-acquisition granularity under sequentially consistent, one-thread-at-a-time execution; weak-memory effects of the Relaxed atomics and the real thread pools are out of reach",
      "callers do not re-enter the pipeline from inside a callback",
    ],
    parts: vec![
      Part { name: "random-schedules", run: run_random, tape_len: 48, quick_cases: 40_000, thorough_cases: 1_500_000, exhaustive_depth: None, exhaustive_budget: 0, exh_quick: false },
      Part { name: "exhaustive", run: run_exh, tape_len: 48, quick_cases: 300, thorough_cases: 20_000, exhaustive_depth: None, exhaustive_budget: 0, exh_quick: false },
    ],
  }
}

#[derive(Clone, Debug, Hash, PartialEq, Eq)]
pub enum TOp {
  Next(usize),
  Complete(usize),
  Error(usize),
  Subscribe,
  Unsubscribe(usize),
  RunTask,
  Advance,
  // used by the thread part of C06 only
  SubscribeNesting,
  Retain,
  Size,
  /// `unsubscribe()` on a clone of the subject itself
  UnsubSubject,
}

#[derive(Clone, Debug, Hash)]
pub struct TCase {
  pub pipe: usize,
  pub pre_subs: usize,
  pub scripts: Vec<Vec<TOp>>,
  pub preemptions: Vec<(u64, usize)>,
}

pub fn gen_scripts(c: &mut dyn Choices, pipe: usize) -> (usize, Vec<Vec<TOp>>) {
  let sched_pipe = pipe >= 7;
  let n_threads = if sched_pipe { 3 } else { 2 + c.pick(2) };
  let pre_subs = 1 + c.pick(2);
  let mut scripts = vec![];
  for t in 0..n_threads {
    let len = 1 + c.pick(4);
    let mut s = vec![];
    for _ in 0..len {
      let op = if sched_pipe && t == 2 {
        if c.pick(3) == 0 {
          TOp::Advance
        } else {
          TOp::RunTask
        }
      } else {
        match c.pick(10) {
          0..=4 => TOp::Next(if pipe == 0 || pipe >= 6 { 0 } else { c.pick(2) }),
          5 => TOp::Complete(c.pick(2)),
          6 => TOp::Error(c.pick(2)),
          7 => TOp::Subscribe,
          _ => TOp::Unsubscribe(c.pick(3)),
        }
      };
      s.push(op);
    }
    scripts.push(s);
  }
  (pre_subs, scripts)
}

pub struct TOutcome {
  pub stats: engine_t::RunStats,
  pub log: Vec<(usize, Mark)>,
  pub calls: Vec<CallRec>,
  pub deliveries: Vec<(u64, usize, PEv)>,
  /// probes subscribed before the threads started
  pub pre_probes: Vec<usize>,
}

pub fn execute(case: &TCase) -> TOutcome {
  crate::vtime::reset(crate::vtime::Mode::Fifo);
  let w = World::new();
  let shared = if case.pipe % PIPES.len() == 6 { Some(w.hot[0].clone().share_threads()) } else { None };
  let mk = {
    let w = w.clone();
    let shared = shared.clone();
    let pipe = case.pipe;
    move || -> Pipe {
      match &shared {
        Some(s) => s.clone().box_it(),
        None => w.pipe(pipe),
      }
    }
  };
  let mut pre_probes = vec![];
  for _ in 0..case.pre_subs {
    pre_probes.push(w.subscribe(mk()));
  }
  let mut counters = vec![0i64; case.scripts.len()];
  let bodies: Vec<Box<dyn FnOnce() + Send>> = case
    .scripts
    .iter()
    .enumerate()
    .map(|(tid, script)| {
      let w = w.clone();
      let script = script.clone();
      let mk = mk.clone();
      let base = (tid as i64 + 1) * 100;
      counters[tid] = base;
      let b: Box<dyn FnOnce() + Send> = Box::new(move || {
        TID.with(|t| t.set(tid));
        let mut n = base;
        for op in script {
          engine_t::call_begin();
          let begin = w.now();
          let mut rec = CallRec { tid, what: format!("{op:?}"), item: None, probe: None, begin, end: 0 };
          match op {
            TOp::Next(i) => {
              n += 1;
              rec.item = Some(n);
              w.hot[i].clone().next(n);
            }
            TOp::Complete(i) => w.hot[i].clone().complete(),
            TOp::Error(i) => w.hot[i].clone().error(7),
            TOp::Subscribe => {
              rec.probe = Some(w.subscribe(mk()));
            }
            TOp::SubscribeNesting => {
              rec.what = "Subscribe".into();
              rec.probe = Some(w.subscribe_nesting(mk()));
            }
            TOp::Retain => w.hot[0].clone().retain(),
            TOp::UnsubSubject => w.hot[0].clone().unsubscribe(),
            TOp::Size => {
              let _ = w.hot[0].is_empty();
              let _ = w.hot[0].len();
            }
            TOp::Unsubscribe(k) => rec.probe = w.unsubscribe(k),
            TOp::RunTask => {
              w.queue.run_one();
            }
            TOp::Advance => crate::vtime::advance(crate::vtime::ticks(1), false),
          }
          rec.end = w.now();
          w.calls.lock().unwrap().push(rec);
          engine_t::call_end();
        }
      });
      b
    })
    .collect();
  let stats = engine_t::run_threads(bodies, case.preemptions.clone(), 5_000);
  let log = w.log.lock().unwrap().clone();
  let calls = w.calls.lock().unwrap().clone();
  let deliveries = w.deliveries.lock().unwrap().clone();
  // break reference cycles between subjects, composite subscriptions and the observers held by the world
  let rest: Vec<TSub> = w.subs.lock().unwrap().drain(..).flatten().collect();
  crate::hooks::set_mode(crate::hooks::ThreadMode::Unmanaged);
  for s in rest {
    let _ = std::panic::catch_unwind(std::panic::AssertUnwindSafe(|| s.unsubscribe()));
  }
  for h in &w.hot {
    let h = h.clone();
    let _ = std::panic::catch_unwind(std::panic::AssertUnwindSafe(|| h.unsubscribe()));
  }
  TOutcome { stats, log, calls, deliveries, pre_probes }
}

/// relative order of the items two probes both received must agree
fn common_order(log: &[(usize, Mark)], a: usize, b: usize) -> Option<String> {
  let items = |p: usize| -> Vec<i64> { events_of(log, p).into_iter().filter_map(|e| if let PEv::N(v) = e { Some(v) } else { None }).collect() };
  let (xa, xb) = (items(a), items(b));
  let ca: Vec<i64> = xa.iter().cloned().filter(|v| xb.contains(v)).collect();
  let cb: Vec<i64> = xb.iter().cloned().filter(|v| xa.contains(v)).collect();
  if ca != cb {
    Some(format!("probe {a} saw {ca:?} but probe {b} saw {cb:?}"))
  } else {
    None
  }
}

pub fn judge(case: &TCase, o: &TOutcome) -> Verdict {
  let name = PIPES[case.pipe % PIPES.len()];
  match &o.stats.verdict {
    TV::Deadlock(m) => return Verdict::Violation { sig: format!("deadlock:{name}"), detail: m.clone() },
    TV::LostWakeup(m) => return Verdict::Violation { sig: format!("lost-wakeup:{name}"), detail: m.clone() },
    TV::Panic(m) => return Verdict::Violation { sig: format!("panic:{name}"), detail: m.clone() },
    TV::StepLimit => return Verdict::Violation { sig: format!("livelock:{name}"), detail: "more than 5000 yield points: the threads do not terminate".into() },
    TV::Completed => {}
  }
  if let Some(m) = overlapping(&o.log) {
    return Verdict::Violation { sig: format!("overlap:{name}"), detail: m };
  }
  if (case.pipe % PIPES.len() == 0 || case.pipe % PIPES.len() == 6) && case.pre_subs >= 2 {
    if let Some(m) = common_order(&o.log, 0, 1) {
      return Verdict::Violation { sig: format!("order:{name}"), detail: m };
    }
  }
  Verdict::Ok
}

pub fn case_json(case: &TCase, o: Option<&TOutcome>) -> serde_json::Value {
  let mut j = json!({
    "pipeline": PIPES[case.pipe % PIPES.len()], "probes_subscribed_up_front": case.pre_subs,
    "threads": case.scripts.iter().map(|s| s.iter().map(|o| format!("{o:?}")).collect::<Vec<_>>()).collect::<Vec<_>>(),
    "preemptions(step->thread)": case.preemptions,
  });
  if let Some(o) = o {
    j["verdict"] = json!(format!("{:?}", o.stats.verdict));
    j["yield_points"] = json!(o.stats.yields);
    j["log(probe, mark)"] = json!(o.log.iter().map(|(p, m)| format!("{p}:{m:?}")).collect::<Vec<_>>());
  }
  j
}

fn finish(case: TCase, ctx: &Ctx) -> Outcome {
  let o = execute(&case);
  let verdict = judge(&case, &o);
  let mut labels: Vec<&'static str> = vec![PIPES[case.pipe % PIPES.len()]];
  if o.stats.preempted_inside_call > 0 {
    labels.push("preempted-inside-call");
  }
  if o.stats.blocked_events > 0 {
    labels.push("lock-contention");
  }
  let desc = if ctx.want_desc || matches!(verdict, Verdict::Violation { .. }) { Some(case_json(&case, Some(&o))) } else { None };
  Outcome { verdict, nontrivial: o.stats.preempted_inside_call > 0, hash: hash_of(&case), labels, notes: vec![], desc }
}

fn run_random(c: &mut dyn Choices, ctx: &Ctx) -> Outcome {
  let pipe = c.pick(9);
  let (pre_subs, scripts) = gen_scripts(c, pipe);
  let n = scripts.len();
  let k = c.pick(4);
  let mut preemptions: Vec<(u64, usize)> = (0..k).map(|_| (1 + c.pick(60) as u64, c.pick(n))).collect();
  preemptions.sort();
  preemptions.dedup_by_key(|p| p.0);
  finish(TCase { pipe, pre_subs, scripts, preemptions }, ctx)
}

/// one evaluation = every schedule with <= 2 preemptions of one generated (pipeline, scripts)
fn run_exh(c: &mut dyn Choices, ctx: &Ctx) -> Outcome {
  let pipe = c.pick(9);
  let (pre_subs, scripts) = gen_scripts(c, pipe);
  let n = scripts.len();
  let base = TCase { pipe, pre_subs, scripts, preemptions: vec![] };
  let o0 = execute(&base);
  let v0 = judge(&base, &o0);
  if let Verdict::Violation { .. } = v0 {
    return Outcome { verdict: v0, nontrivial: false, hash: hash_of(&base), labels: vec!["exhaustive-2"], notes: vec![], desc: Some(case_json(&base, Some(&o0))) };
  }
  let total = o0.stats.yields.min(40);
  let mut schedules = 1u64;
  let mut inside = 0u64;
  for s1 in 1..=total {
    for t1 in 0..n {
      let c1 = TCase { preemptions: vec![(s1, t1)], ..base.clone() };
      let o1 = execute(&c1);
      schedules += 1;
      inside += o1.stats.preempted_inside_call;
      if let v @ Verdict::Violation { .. } = judge(&c1, &o1) {
        return Outcome { verdict: v, nontrivial: true, hash: hash_of(&c1), labels: vec!["exhaustive-2"], notes: vec![], desc: Some(case_json(&c1, Some(&o1))) };
      }
      if o1.stats.preemptions_taken == 0 {
        continue; // the preemption was not applicable: a second one after it adds nothing new
      }
      let total2 = o1.stats.yields.min(40);
      for s2 in (s1 + 1)..=total2 {
        for t2 in 0..n {
          let c2 = TCase { preemptions: vec![(s1, t1), (s2, t2)], ..base.clone() };
          let o2 = execute(&c2);
          schedules += 1;
          inside += o2.stats.preempted_inside_call;
          if let v @ Verdict::Violation { .. } = judge(&c2, &o2) {
            return Outcome { verdict: v, nontrivial: true, hash: hash_of(&c2), labels: vec!["exhaustive-2"], notes: vec![], desc: Some(case_json(&c2, Some(&o2))) };
          }
        }
      }
    }
  }
  let desc = if ctx.want_desc {
    let mut j = case_json(&base, None);
    j["schedules_enumerated"] = json!(schedules);
    Some(j)
  } else {
    None
  };
  Outcome { verdict: Verdict::Ok, nontrivial: inside > 0, hash: hash_of(&base), labels: vec!["exhaustive-2", PIPES[pipe % PIPES.len()]], notes: vec![format!("schedules-per-case~{}", (schedules / 100) * 100)], desc }
}
