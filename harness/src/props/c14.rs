//! C14 — conversions and completion status report the real outcome and never hang.
//! Engine S: source histories interleaved with polls of to_future() / to_stream() /
//! the completion-status future, with a wake-counting waker.
use crate::choice::{Choices, ChoicesExt};
use crate::run::*;
use futures::task::{waker, ArcWake};
use futures::{Future, Stream};
use rxrust::ops::complete_status::CompleteStatus;
use rxrust::ops::future::ObservableError;
use rxrust::prelude::*;
use serde_json::json;
use std::pin::Pin;
use std::sync::atomic::{AtomicUsize, Ordering};
use std::sync::Arc;
use std::task::{Context, Poll};

pub fn prop() -> Prop {
  Prop {
    id: "C14",
    rule: "case = (conversion in to_future / collect().to_future / to_stream / complete_status (flags + the future wait_for_end blocks on); source = hot Subject or SubjectThreads; history of <= 8 steps (one in eight: each step repeated 20..60 times): next(numbered item), complete, error, poll the future / stream once with a wake-counting waker; polls happen before, between and after the source events). \
           Oracle: to_future resolves to Ok(Ok(v)) for exactly one item then complete, Err(Empty) for none, Err(MultipleValues) for several, Ok(Err(e)) for an error (after earlier items: the error or MultipleValues); collect().to_future resolves to all items; to_stream yields every item and then the error in order and then None; the status flags are all false before the terminal and exactly one of completed / error_occur afterwards. Readiness: a poll made after the source terminated returns Ready (the stream: Ready for every queued element and then Ready(None)), never Pending; a poll made before returns Pending and never an invented value; if a poll returned Pending, the waker it registered has been woken by the time the source has terminated. Non-trivial: a poll happened before the terminal, or the terminal is an error. Distinct by hash(case). \
           Part `threads` (engine T): a producer thread sends 0..2 items and then complete or error into SubjectThreads -> complete_status; a waiter thread blocks on the future that wait_for_end blocks on, through the harness block_on (parking is a controller state); schedule = <= 3 preemptions over the lock-acquisition yield points plus the hooked point between the status check and the waker registration; every schedule with <= 2 preemptions is enumerated per script. Oracle: both threads finish (a waiter parked for ever after the producer has finished is a lost wake-up verdict) and the waiter returns only after the terminal.",
    assumptions: &[
      "dropping the future/stream while the source is still emitting is not generated",
      "threads part: sequentially consistent interleavings at the hooked yield points only",
    ],
    parts: vec![
      Part { name: "histories", run: run_random, tape_len: 32, quick_cases: 800_000, thorough_cases: 16_000_000, exhaustive_depth: None, exhaustive_budget: 0, exh_quick: false },
      Part { name: "short", run: run_short, tape_len: 16, quick_cases: 0, thorough_cases: 0, exhaustive_depth: Some(10), exhaustive_budget: 10_000_000, exh_quick: true },
      Part { name: "threads", run: run_threads, tape_len: 24, quick_cases: 6_000, thorough_cases: 400_000, exhaustive_depth: None, exhaustive_budget: 0, exh_quick: false },
      Part { name: "pipeline", run: run_pipeline, tape_len: 64, quick_cases: 500_000, thorough_cases: 10_000_000, exhaustive_depth: None, exhaustive_budget: 0, exh_quick: false },
    ],
  }
}

#[derive(Clone, Copy, Debug, Hash, PartialEq, Eq)]
enum Conv {
  ToFuture,
  CollectToFuture,
  ToStream,
  Status,
}
#[derive(Clone, Debug, Hash, PartialEq, Eq)]
enum Op {
  Next,
  Complete,
  Error,
  Poll,
}

struct CountWaker(AtomicUsize);
impl ArcWake for CountWaker {
  fn wake_by_ref(a: &Arc<Self>) {
    a.0.fetch_add(1, Ordering::SeqCst);
  }
}

/// result of one poll, normalised
#[derive(Clone, Debug, PartialEq, Eq)]
enum PollRes {
  Pending,
  /// to_future: Ok(Ok(v)) / Ok(Err(e)) / Err(Empty) / Err(Multiple)
  FutItem(i64),
  FutErr(u8),
  FutEmpty,
  FutMultiple,
  Collected(Vec<i64>),
  StreamItem(i64),
  StreamErr(u8),
  StreamEnd,
  StatusReady,
}

struct Observed {
  polls: Vec<(usize, PollRes, usize)>, // (step, result, wakes seen so far)
  flags: Vec<(usize, bool, bool, bool)>, // (step, is_closed, is_completed, error_occur)
  wakes_end: usize,
}

macro_rules! impl_exec {
  ($name:ident, $subj:ty) => {
    fn $name(conv: Conv, ops: &[Op]) -> Observed {
      let mut subject = <$subj>::default();
      let cw = Arc::new(CountWaker(AtomicUsize::new(0)));
      let wk = waker(cw.clone());
      let mut cx = Context::from_waker(&wk);
      let mut fut = None;
      let mut cfut = None;
      let mut stream = None;
      let mut status = None;
      let mut sfut = None;
      match conv {
        Conv::ToFuture => fut = Some(Box::pin(subject.clone().to_future())),
        Conv::CollectToFuture => cfut = Some(Box::pin(subject.clone().collect::<Vec<i64>>().to_future())),
        Conv::ToStream => stream = Some(Box::pin(subject.clone().to_stream())),
        Conv::Status => {
          let (o, st) = subject.clone().complete_status();
          // an ordinary subscriber keeps the pipeline alive
          let _ = o.actual_subscribe(Sink);
          sfut = Some(Box::pin(CompleteStatus::verif_wait_future(st.clone())));
          status = Some(st);
        }
      }
      let mut obs = Observed { polls: vec![], flags: vec![], wakes_end: 0 };
      let mut item = 0i64;
      let mut stream_done = false;
      for (k, op) in ops.iter().enumerate() {
        match op {
          Op::Next => {
            item += 1;
            subject.next(item)
          }
          Op::Complete => subject.clone().complete(),
          Op::Error => subject.clone().error(9u8),
          Op::Poll => {
            let wakes = cw.0.load(Ordering::SeqCst);
            if let Some(f) = fut.as_mut() {
              let r = match f.as_mut().poll(&mut cx) {
                Poll::Pending => PollRes::Pending,
                Poll::Ready(Ok(Ok(v))) => PollRes::FutItem(v),
                Poll::Ready(Ok(Err(e))) => PollRes::FutErr(e),
                Poll::Ready(Err(ObservableError::Empty)) => PollRes::FutEmpty,
                Poll::Ready(Err(ObservableError::MultipleValues)) => PollRes::FutMultiple,
              };
              let done = r != PollRes::Pending;
              obs.polls.push((k, r, wakes));
              if done {
                fut = None; // a resolved future is not polled again
              }
            } else if let Some(f) = cfut.as_mut() {
              let r = match f.as_mut().poll(&mut cx) {
                Poll::Pending => PollRes::Pending,
                Poll::Ready(Ok(Ok(v))) => PollRes::Collected(v),
                Poll::Ready(Ok(Err(e))) => PollRes::FutErr(e),
                Poll::Ready(Err(ObservableError::Empty)) => PollRes::FutEmpty,
                Poll::Ready(Err(ObservableError::MultipleValues)) => PollRes::FutMultiple,
              };
              let done = r != PollRes::Pending;
              obs.polls.push((k, r, wakes));
              if done {
                cfut = None;
              }
            } else if let Some(s) = stream.as_mut() {
              if !stream_done {
                let r = match s.as_mut().poll_next(&mut cx) {
                  Poll::Pending => PollRes::Pending,
                  Poll::Ready(Some(Ok(v))) => PollRes::StreamItem(v),
                  Poll::Ready(Some(Err(e))) => PollRes::StreamErr(e),
                  Poll::Ready(None) => PollRes::StreamEnd,
                };
                if r == PollRes::StreamEnd {
                  stream_done = true;
                }
                obs.polls.push((k, r, wakes));
              }
            } else if let Some(f) = sfut.as_mut() {
              let r = match f.as_mut().poll(&mut cx) {
                Poll::Pending => PollRes::Pending,
                Poll::Ready(_) => PollRes::StatusReady,
              };
              let done = r != PollRes::Pending;
              obs.polls.push((k, r, wakes));
              if done {
                sfut = None;
              }
            }
          }
        }
        if let Some(st) = &status {
          obs.flags.push((k, st.is_closed(), st.is_completed(), st.error_occur()));
        }
      }
      obs.wakes_end = cw.0.load(Ordering::SeqCst);
      obs
    }
  };
}

struct Sink;
impl Observer<i64, u8> for Sink {
  fn next(&mut self, _: i64) {}
  fn error(self, _: u8) {}
  fn complete(self) {}
  fn is_finished(&self) -> bool {
    false
  }
}

impl_exec!(exec_local, Subject<'static, i64, u8>);
impl_exec!(exec_threads, SubjectThreads<i64, u8>);

fn judge(conv: Conv, ops: &[Op], o: &Observed) -> Result<(), (String, String)> {
  // source history, cut at the first terminal
  let mut items: Vec<i64> = vec![];
  let mut term: Option<(usize, bool)> = None; // (step, is_error)
  let mut item = 0;
  let mut item_steps: Vec<usize> = vec![];
  for (k, op) in ops.iter().enumerate() {
    match op {
      Op::Next => {
        item += 1;
        if term.is_none() {
          items.push(item);
          item_steps.push(k);
        }
      }
      Op::Complete if term.is_none() => term = Some((k, false)),
      Op::Error if term.is_none() => term = Some((k, true)),
      _ => {}
    }
  }
  let name = format!("{conv:?}");
  match conv {
    Conv::ToFuture | Conv::CollectToFuture | Conv::Status => {
      for (k, r, _) in &o.polls {
        let after = term.map_or(false, |(ts, _)| *k > ts);
        if !after {
          if *r != PollRes::Pending {
            return Err((format!("early-ready:{name}"), format!("poll at step {k} returned {r:?} although the source had not terminated")));
          }
        } else {
          let is_err = term.unwrap().1;
          let ok = match conv {
            Conv::Status => *r == PollRes::StatusReady,
            Conv::CollectToFuture => {
              if is_err {
                *r == PollRes::FutErr(9)
              } else {
                *r == PollRes::Collected(items.clone())
              }
            }
            _ => {
              if is_err {
                if items.is_empty() {
                  *r == PollRes::FutErr(9)
                } else {
                  *r == PollRes::FutErr(9) || *r == PollRes::FutMultiple
                }
              } else {
                match items.len() {
                  0 => *r == PollRes::FutEmpty,
                  1 => *r == PollRes::FutItem(items[0]),
                  _ => *r == PollRes::FutMultiple,
                }
              }
            }
          };
          if !ok {
            let kind = if *r == PollRes::Pending { "hang" } else { "wrong-outcome" };
            return Err((
              format!("{kind}:{name}:{}", if is_err { "after-error" } else { "after-complete" }),
              format!("source sent items {:?} then {} at step {}; the poll at step {k} returned {r:?}", items, if is_err { "error(9)" } else { "complete" }, term.unwrap().0),
            ));
          }
        }
      }
    }
    Conv::ToStream => {
      // expected element sequence
      let mut expected: Vec<PollRes> = items.iter().map(|v| PollRes::StreamItem(*v)).collect();
      if let Some((_, is_err)) = term {
        if is_err {
          expected.push(PollRes::StreamErr(9));
        }
        expected.push(PollRes::StreamEnd);
      }
      let mut idx = 0usize;
      for (k, r, _) in &o.polls {
        // how many elements had been produced before this poll
        let avail = item_steps.iter().filter(|s| **s < *k).count() + term.map_or(0, |(ts, e)| if *k > ts { 1 + e as usize } else { 0 });
        if idx < avail {
          if *r != expected[idx] {
            let kind = if *r == PollRes::Pending { "hang" } else { "wrong-element" };
            return Err((format!("{kind}:{name}"), format!("poll at step {k}: expected {:?}, got {r:?} (source items {:?}, terminal {:?})", expected[idx], items, term)));
          }
          idx += 1;
        } else if *r != PollRes::Pending {
          return Err((format!("invented:{name}"), format!("poll at step {k} returned {r:?} although nothing was available")));
        }
      }
    }
  }
  // wake-up: some poll returned Pending before the terminal => woken by the time the source terminated
  if let Some((ts, _)) = term {
    if let Some((_, _, w)) = o.polls.iter().rev().find(|(k, r, _)| *k < ts && *r == PollRes::Pending) {
      if o.wakes_end <= *w {
        return Err((format!("lost-wakeup:{name}"), format!("a poll returned Pending before the terminal (step {ts}) but its waker was never woken")));
      }
    }
  }
  if conv == Conv::Status {
    for (k, closed, completed, errored) in &o.flags {
      let exp = match term {
        Some((ts, e)) if *k >= ts => (true, !e, e),
        _ => (false, false, false),
      };
      if (*closed, *completed, *errored) != exp {
        return Err((format!("flags:{name}"), format!("after step {k}: (is_closed, is_completed, error_occur) = {:?}, expected {:?}", (closed, completed, errored), exp)));
      }
    }
  }
  Ok(())
}

fn finish(conv: Conv, threads: bool, ops: Vec<Op>, ctx: &Ctx) -> Outcome {
  if ctx.known("hang:ToFuture:after-error") && conv == Conv::ToFuture && ops.iter().any(|o| *o == Op::Error) {
    return Outcome { labels: vec!["excluded-known"], ..Outcome::discard() };
  }
  let res = guarded(|| if threads { exec_threads(conv, &ops) } else { exec_local(conv, &ops) });
  let tpos = ops.iter().position(|o| matches!(o, Op::Complete | Op::Error));
  let nt = ops.iter().take(tpos.unwrap_or(ops.len())).any(|o| *o == Op::Poll) || tpos.map_or(false, |p| ops[p] == Op::Error);
  let mut labels: Vec<&'static str> = vec![match conv {
    Conv::ToFuture => "to_future",
    Conv::CollectToFuture => "collect+to_future",
    Conv::ToStream => "to_stream",
    Conv::Status => "complete_status",
  }];
  if threads {
    labels.push("SubjectThreads");
  }
  let verdict = match &res {
    Err(m) => Verdict::Violation { sig: format!("panic:{conv:?}"), detail: m.clone() },
    Ok(o) => match judge(conv, &ops, o) {
      Ok(()) => Verdict::Ok,
      Err((sig, detail)) => Verdict::Violation { sig, detail },
    },
  };
  let desc = if ctx.want_desc || matches!(verdict, Verdict::Violation { .. }) {
    Some(json!({
      "conversion": format!("{conv:?}"), "source": if threads {"SubjectThreads"} else {"Subject"}, "history": ops.iter().map(|o| format!("{o:?}")).collect::<Vec<_>>(),
      "polls(step, result, wakes_before)": res.as_ref().map(|o| json!(o.polls.iter().map(|(k,r,w)| format!("{k}: {r:?} (wakes {w})")).collect::<Vec<_>>())).unwrap_or_else(|m| json!({"panic": m})),
    }))
  } else {
    None
  };
  Outcome { verdict, nontrivial: nt, hash: hash_of(&(conv, threads, &ops)), labels, notes: vec![], desc }
}

fn gen(c: &mut dyn Choices, max: usize) -> (Conv, Vec<Op>) {
  let conv = *c.one_of(&[Conv::ToFuture, Conv::ToStream, Conv::Status, Conv::CollectToFuture]);
  let n = c.pick(max + 1);
  let ops: Vec<Op> = (0..n)
    .map(|_| match c.pick(7) {
      0 | 1 => Op::Next,
      2 => Op::Complete,
      3 => Op::Error,
      _ => Op::Poll,
    })
    .collect();
  (conv, ops)
}

/// (appended picks, recorded tapes keep their meaning) one history in eight is long: every next / poll step
/// becomes a burst of 20..60, or of 100 / 255..258 / 300 (channel / collection growth, narrow counters)
fn maybe_long(c: &mut dyn Choices, ops: Vec<Op>) -> Vec<Op> {
  if c.pick(8) != 7 {
    return ops;
  }
  let mut out = vec![];
  for op in ops {
    match op {
      Op::Next | Op::Poll => {
        let k = crate::ast::pick_size(c, 20, 41, &[100, 255, 256, 257, 258, 300]);
        out.extend((0..k).map(|_| op.clone()));
      }
      o => out.push(o),
    }
  }
  out
}

fn run_random(c: &mut dyn Choices, ctx: &Ctx) -> Outcome {
  let threads = c.pick(3) == 0;
  let (conv, ops) = gen(c, 8);
  let ops = maybe_long(c, ops);
  finish(conv, threads, ops, ctx)
}
fn run_short(c: &mut dyn Choices, ctx: &Ctx) -> Outcome {
  let conv = *c.one_of(&[Conv::ToFuture, Conv::ToStream, Conv::Status, Conv::CollectToFuture]);
  let n = c.pick(7);
  let ops = (0..n).map(|_| c.one_of(&[Op::Next, Op::Complete, Op::Error, Op::Poll]).clone()).collect();
  finish(conv, false, ops, ctx)
}


// ------------------------------------------------------------ engine T part

#[derive(Clone, Debug, Hash)]
struct WCase {
  items: usize,
  error: bool,
  preemptions: Vec<(u64, usize)>,
  /// what the waiting thread blocks on: 0 the wait_for_end future, 1 to_future(), 2 collect().to_future(),
  /// 3 to_stream() read to its end
  conv: u8,
}

fn exec_wait(case: &WCase) -> (crate::engine_t::RunStats, bool) {
  use futures::StreamExt;
  use std::sync::atomic::AtomicBool;
  crate::vtime::reset(crate::vtime::Mode::Fifo);
  let subject = SubjectThreads::<i64, u8>::default();
  let bad = Arc::new(AtomicBool::new(false));
  let producer: Box<dyn FnOnce() + Send> = {
    let mut s = subject.clone();
    let (items, error) = (case.items, case.error);
    Box::new(move || {
      for i in 0..items {
        s.next(i as i64);
      }
      if error {
        s.error(9)
      } else {
        s.complete()
      }
    })
  };
  let (items, error) = (case.items, case.error);
  let waiter: Box<dyn FnOnce() + Send> = match case.conv {
    0 => {
      let (o, st) = subject.clone().complete_status();
      let sub = o.actual_subscribe(Sink);
      let early = bad.clone();
      Box::new(move || {
        let _keep = sub;
        let _ = crate::engine_t::block_on(CompleteStatus::verif_wait_future(st.clone()));
        if !st.is_closed() {
          early.store(true, Ordering::SeqCst);
        }
      })
    }
    1 => {
      let fut = subject.clone().to_future();
      let wrong = bad.clone();
      Box::new(move || {
        let r = crate::engine_t::block_on(fut);
        // single item then complete: that item; an error after <= 1 item: the error; otherwise Empty / MultipleValues
        // (after several items an error may also be reported as MultipleValues, DESIGN 7)
        let ok = match (&r, items, error) {
          (Ok(Ok(v)), 1, false) => *v == 0,
          (Ok(Err(e)), 0, true) | (Ok(Err(e)), 1, true) => *e == 9,
          (Ok(Err(e)), _, true) => *e == 9,
          (Err(_), 0, false) => true,
          (Err(_), n, _) if n >= 2 => true,
          (Err(_), 1, true) => true, // an item and then an error: the error or MultipleValues (DESIGN 7)
          _ => false,
        };
        if !ok {
          wrong.store(true, Ordering::SeqCst);
        }
      })
    }
    2 => {
      let fut = subject.clone().collect::<Vec<i64>>().to_future();
      let wrong = bad.clone();
      Box::new(move || {
        let r = crate::engine_t::block_on(fut);
        let ok = match (&r, error) {
          (Ok(Ok(v)), false) => *v == (0..items as i64).collect::<Vec<_>>(),
          (Ok(Err(e)), true) => *e == 9,
          _ => false,
        };
        if !ok {
          wrong.store(true, Ordering::SeqCst);
        }
      })
    }
    _ => {
      let mut stream = Box::pin(subject.clone().to_stream());
      let wrong = bad.clone();
      Box::new(move || {
        let got: Vec<Result<i64, u8>> = crate::engine_t::block_on(async move {
          let mut v = vec![];
          while let Some(x) = stream.next().await {
            v.push(x);
          }
          v
        });
        let mut exp: Vec<Result<i64, u8>> = (0..items as i64).map(Ok).collect();
        if error {
          exp.push(Err(9));
        }
        if got != exp {
          wrong.store(true, Ordering::SeqCst);
        }
      })
    }
  };
  // thread 0 = waiter (starts first, so that it can be preempted inside its first poll), thread 1 = producer
  let stats = crate::engine_t::run_threads(vec![waiter, producer], case.preemptions.clone(), 2_000);
  (stats, bad.load(Ordering::SeqCst))
}

fn conv_name(c: u8) -> &'static str {
  match c {
    0 => "wait_for_end",
    1 => "to_future",
    2 => "collect+to_future",
    _ => "to_stream",
  }
}

fn judge_wait(case: &WCase) -> (Verdict, crate::engine_t::RunStats) {
  use crate::engine_t::Verdict as TV;
  let (stats, bad) = exec_wait(case);
  let name = conv_name(case.conv);
  let v = match &stats.verdict {
    TV::LostWakeup(m) => Verdict::Violation { sig: format!("threads:lost-wakeup:{name}"), detail: format!("the producer finished (terminal delivered) but the waiter is parked for ever: {m}") },
    TV::Deadlock(m) => Verdict::Violation { sig: format!("threads:deadlock:{name}"), detail: m.clone() },
    TV::Panic(m) => Verdict::Violation { sig: format!("threads:panic:{name}"), detail: m.clone() },
    TV::StepLimit => Verdict::Violation { sig: format!("threads:livelock:{name}"), detail: "step limit".into() },
    TV::Completed => {
      if bad && case.conv == 0 {
        Verdict::Violation { sig: "threads:returned-early:wait_for_end".into(), detail: "the wait future resolved although the status was not closed".into() }
      } else if bad {
        Verdict::Violation { sig: format!("threads:wrong-outcome:{name}"), detail: format!("{} item(s) then {}: the waiter was handed a different outcome", case.items, if case.error { "error" } else { "complete" }) }
      } else {
        Verdict::Ok
      }
    }
  };
  (v, stats)
}

fn run_threads(c: &mut dyn Choices, ctx: &Ctx) -> Outcome {
  let items = c.pick(3);
  let error = c.flag();
  let exhaustive = c.pick(4) == 0;
  let mut labels = vec!["part:threads"];
  let mut nt = false;
  let mut worst: Option<(Verdict, WCase)> = None;
  // the random branch draws its preemptions first, so that the conversion is the last pick in both branches
  // (recorded tapes keep their meaning: they end before it and read 0 = wait_for_end)
  let pre_random: Vec<(u64, usize)> = if exhaustive {
    vec![]
  } else {
    let k = c.pick(4);
    let mut pre: Vec<(u64, usize)> = (0..k).map(|_| (1 + c.pick(25) as u64, c.pick(2))).collect();
    pre.sort();
    pre.dedup_by_key(|p| p.0);
    pre
  };
  let conv = c.pick(4) as u8;
  labels.push(conv_name(conv));
  if exhaustive {
    labels.push("exhaustive-2");
    let base = WCase { items, error, preemptions: vec![], conv };
    let (_, s0) = judge_wait(&base);
    let total = s0.yields.min(30);
    'outer: for s1 in 1..=total {
      for t1 in 0..2 {
        for s2 in s1..=total {
          for t2 in 0..2 {
            let pre = if s2 == s1 { vec![(s1, t1)] } else { vec![(s1, t1), (s2, t2)] };
            let case = WCase { items, error, preemptions: pre, conv };
            let (v, st) = judge_wait(&case);
            nt |= st.preemptions_taken > 0;
            if let Verdict::Violation { .. } = v {
              worst = Some((v, case));
              break 'outer;
            }
            if s2 == s1 {
              break;
            }
          }
        }
      }
    }
  } else {
    let case = WCase { items, error, preemptions: pre_random, conv };
    let (v, st) = judge_wait(&case);
    nt = st.preemptions_taken > 0;
    if let Verdict::Violation { .. } = v {
      worst = Some((v, case));
    } else if ctx.want_desc {
      worst = Some((Verdict::Ok, case));
    }
  }
  let (verdict, desc) = match worst {
    Some((v, case)) => (v, Some(json!({"producer": format!("{} item(s) then {}", case.items, if case.error {"error"} else {"complete"}), "waiter": format!("block_on({})", conv_name(case.conv)), "preemptions(step->thread; 0=waiter,1=producer)": case.preemptions}))),
    None => (Verdict::Ok, None),
  };
  Outcome { verdict, nontrivial: nt, hash: hash_of(&(items, error, exhaustive, c.record().to_vec())), labels, notes: vec![], desc }
}

// ------------------------------------------------ complete_status inside a pipeline ------

/// `source . (0..2 C03 operators) . complete_status() . (0..2 C03 operators, half of the cases ending early)` on a cold
/// (synchronous) or hot source; flags sampled after subscription and after every script step
fn gen_pipeline(c: &mut dyn Choices) -> (crate::ast::PCase, crate::ast::Node) {
  use crate::ast::*;
  use crate::value::*;
  let kind = c.pick(3);
  let (src, script, len_hint) = match kind {
    0 => {
      let s = gen_cold_src(c, 4, 3);
      let l = match &s {
        Src::FromIter(v) => v.len(),
        Src::Repeat(_, n) => *n,
        Src::Create(s) => s.len(),
        _ => 1,
      };
      (s, vec![], l)
    }
    k => {
      let n = c.pick(5);
      let mut sc: Vec<Ev> = (0..n).map(|_| Ev::N(gen_v(c, 3))).collect();
      match c.pick(3) {
        0 => {}
        1 => sc.push(Ev::C),
        _ => sc.push(Ev::Er(gen_e(c))),
      }
      if sc.last().map_or(false, |e| e.is_terminal()) {
        for _ in 0..c.pick(3) {
          sc.push(match c.pick(4) {
            0 => Ev::C,
            1 => Ev::Er(gen_e(c)),
            _ => Ev::N(gen_v(c, 3)),
          });
        }
      }
      (if k == 1 { Src::Hot(0) } else { Src::HotCreate(0) }, sc, n)
    }
  };
  let mut below = Node::Src(src);
  for _ in 0..c.pick(3) {
    below = Node::un(gen_un_c03(c, len_hint, 3), below);
  }
  let mut node = Node::un(Un::CompleteStatus, below.clone());
  let n_above = c.pick(3);
  for i in 0..n_above {
    let op = if i == 0 && c.flag() {
      // an operator that can end the stream before its source does
      match c.pick(6) {
        0 => Un::Take(c.pick(len_hint + 2)),
        1 => Un::First,
        2 => Un::TakeWhile(gen_pred(c)),
        3 => Un::TakeWhileInclusive(gen_pred(c)),
        4 => Un::ElementAt(c.pick(len_hint + 1)),
        _ => Un::Contains(gen_v(c, 3)),
      }
    } else {
      gen_un_c03(c, len_hint, 3)
    };
    node = Node::un(op, node);
  }
  let kinds = vec![if kind == 2 { IKind::Create } else { IKind::Subject }];
  let script = script.into_iter().map(|e| Step::Emit(0, e)).collect();
  (PCase { node, kinds, script, mode: SchedMode::Fifo, threads: c.flag() }, below)
}

type Tl14 = Vec<(i64, crate::value::Ev)>;
fn run_pipeline(c: &mut dyn Choices, ctx: &Ctx) -> Outcome {
  use crate::ast::*;
  use crate::model::{self, Opts};
  use crate::value::*;
  let (case, below) = gen_pipeline(c);
  let inputs = crate::props::c04::inputs_of(&case);
  let res = crate::common::run_pcase(&case, true);
  let mut labels: Vec<&'static str> = vec![];
  let cold = case.script.is_empty();
  labels.push(if cold { "pipeline:cold-source" } else { "pipeline:hot-source" });
  let mut verdict = Verdict::Ok;
  let mut nt = false;
  let mut discard = false;
  match &res {
    Err(m) => verdict = Verdict::Violation { sig: "panic:pipeline".into(), detail: format!("pipeline panicked: {m}") },
    Ok(tr) => {
      let act = crate::props::c04::trace_tl(tr);
      // every reading (take(0), skip_last) under which the reference reproduces the delivered trace gives one candidate
      // upstream timeline; the flags have to be right under at least one of them (two readings can reproduce the same
      // delivered trace and still differ upstream of complete_status)
      let mut ups: Vec<Tl14> = vec![];
      for sl in [false, true] {
        for t0 in 0..3 {
          let o = Opts { skip_last_lazy: sl, take0_immediate: t0 == 1, take0_at_first_item: t0 == 2, ..Opts::default() };
          if model::eval(&case.node, &inputs, o).map_or(false, |e| e == act) {
            if let Some(u) = model::eval(&below, &inputs, o) {
              if !ups.contains(&u) {
                ups.push(u);
              }
            }
          }
        }
      }
      if ups.is_empty() {
        discard = true; // a difference in the delivered sequence is C03's business, not this part's
      }
      let mut first_bad: Option<Verdict> = None;
      let mut any_ok = false;
      for up in &ups {
        let term_up = up.last().filter(|(_, e)| e.is_terminal()).cloned();
        let out_term = act.last().filter(|(_, e)| e.is_terminal()).cloned();
        // the downstream ended strictly before the step of the upstream terminal: a pruning source (Subject) may never deliver it
        let ended_before = match (&term_up, &out_term) {
          (Some((st, _)), Some((so, _))) => so < st,
          _ => false,
        };
        let ended_early = match (&term_up, &out_term) {
          (Some((st, _)), Some((so, _))) => so <= st && act.len() < up.len() + 1,
          _ => false,
        };
        let mut this_bad: Option<Verdict> = None;
        for (idx, flags) in tr.status_after_step.iter().enumerate() {
          let k: i64 = idx as i64 - 1; // -1 = after subscription
          let Some(&(cf, ef)) = flags.first() else { continue };
          let due = term_up.as_ref().filter(|(st, _)| *st <= k);
          let bad = if cf && ef {
            Some("both-flags")
          } else {
            match due {
              None if cf || ef => Some("reported-without-terminal"),
              Some((_, Ev::C)) if ef => Some("error-reported-for-completion"),
              Some((_, Ev::Er(_))) if cf => Some("completion-reported-for-error"),
              Some((_, Ev::C)) if !cf && !ended_before => Some("completion-not-reported"),
              Some((_, Ev::Er(_))) if !ef && !ended_before => Some("error-not-reported"),
              _ => None,
            }
          };
          if let Some(b) = bad {
            this_bad = Some(Verdict::Violation {
              sig: format!("pipeline-status:{b}"),
              detail: format!("after step {k}: is_completed={cf} error_occur={ef}; upstream of complete_status: [{}]; delivered: [{}]", up.iter().map(|(s, e)| format!("{}@{}", ev_short(e), s)).collect::<Vec<_>>().join(" "), tr.short()),
            });
            break;
          }
        }
        match this_bad {
          None => {
            if !any_ok {
              // labels from the reading that explains the run
              if term_up.is_some() {
                labels.push("pipeline:source-terminated");
                nt = true;
              }
              if ended_before {
                labels.push("pipeline:downstream-ended-first");
              } else if ended_early && term_up.is_some() {
                labels.push("pipeline:downstream-ended-same-step");
              }
            }
            any_ok = true;
          }
          Some(v) => {
            if first_bad.is_none() {
              first_bad = Some(v);
            }
          }
        }
      }
      if !any_ok {
        if let Some(v) = first_bad {
          nt = true;
          verdict = v;
        }
      }
    }
  }
  if discard {
    return Outcome { labels: vec!["pipeline:sequence-differs(C03)"], ..Outcome::discard() };
  }
  let desc = if ctx.want_desc || matches!(verdict, Verdict::Violation { .. }) {
    let mut j = crate::props::c01::pcase_json(&case);
    if let Ok(tr) = &res {
      j["delivered"] = json!(tr.short());
      j["status_after_step"] = json!(tr.status_after_step.iter().map(|f| f.first().map(|(a, b)| format!("{}{}", if *a { "C" } else { "-" }, if *b { "E" } else { "-" })).unwrap_or_default()).collect::<Vec<_>>().join(" "));
    }
    Some(j)
  } else {
    None
  };
  Outcome { verdict, nontrivial: nt, hash: hash_of(&case), labels, notes: vec![], desc }
}
