//! C02 — after unsubscribe() returns the subscriber is never called again.
//! Oracle: invariant over the probe history — no notification is stamped with a
//! script step later than the step in which unsubscribe() / the guard drop ran.
use crate::ast::*;
use crate::choice::{Choices, ChoicesExt};
use crate::common::*;
use crate::props::c01::{gen_pcase, maybe_lengthen, op_names, pcase_json, script_profile};
use crate::run::*;
use serde_json::json;

pub fn prop() -> Prop {
  Prop {
    id: "C02",
    rule: "case = the C01 pipeline generator (depth <= 4, whole catalogue incl. every scheduler-using operator, interval/timer sources, local and thread-safe builds, all three scheduler models) + a script of <= 12 steps into which `unsubscribe()` (or the drop of an `unsubscribe_when_dropped()` guard) is injected at a generated position; after the cut the script continues: hot inputs emit and terminate, the clock advances, tasks run (any-order model: in generated order), and finally every pending timer is fired and every ready task run. Part `every-cut` (thorough) tries every position of each generated script. \
           Oracle: no notification is delivered during a script step later than the cut. Non-trivial: at the cut a scheduled task or timer was pending, or a hot input emitted after the cut. Distinct by hash(case). \
           Part `threads` (engine T): thread A emits into SubjectThreads inputs of one of merge / zip / combine_latest / merge_all / take_until / share / observe_on / delay (_threads forms), debounce, throttle_time (trailing edge), buffer_with_time, or a bare SubjectThreads; thread B unsubscribes the probe's subscription and raises a flag the moment unsubscribe() has returned; for scheduler pipelines a third thread runs queued tasks / advances the clock; schedule = <= 3 preemptions at lock-acquisition granularity; afterwards every queued task is run and every timer fired. Oracle: no probe callback is *entered* with the flag raised.",
    assumptions: &[
      "a notification delivered *during* the unsubscribe() call is not counted (the statement speaks of after it returns)",
      "threads part: sequentially consistent interleavings at lock-acquisition granularity",
    ],
    parts: vec![
      Part { name: "one-cut", run: run_one_cut, tape_len: 160, quick_cases: 1_000_000, thorough_cases: 20_000_000, exhaustive_depth: None, exhaustive_budget: 0, exh_quick: false },
      Part { name: "threads", run: run_threads, tape_len: 48, quick_cases: 30_000, thorough_cases: 1_000_000, exhaustive_depth: None, exhaustive_budget: 0, exh_quick: false },
      Part { name: "every-cut", run: run_every_cut, tape_len: 160, quick_cases: 60_000, thorough_cases: 2_000_000, exhaustive_depth: None, exhaustive_budget: 0, exh_quick: false },
    ],
  }
}

fn with_cut(base: &PCase, pos: usize, guard: bool) -> PCase {
  let mut c = base.clone();
  let pos = pos.min(c.script.len());
  c.script.insert(pos, if guard { Step::DropGuard } else { Step::Unsub });
  c
}

fn known_excluded(case: &PCase, ctx: &Ctx) -> bool {
  if ctx.active_known.is_empty() {
    return false;
  }
  let mut ex = false;
  case.node.visit(&mut |n| {
    if let Node::Un(Un::ThrottleTime(_, e), ..) | Node::Un(Un::Throttle(e), ..) = n {
      if *e != Edge::Leading && ctx.known("after-unsubscribe:throttle-trailing") {
        ex = true;
      }
    }
  });
  ex
}

fn check(case: &PCase, ctx: &Ctx) -> (Verdict, bool, Vec<&'static str>, Option<serde_json::Value>) {
  let res = run_pcase(case, false);
  let (_, mut labels) = script_profile(case, res.as_ref().ok());
  let mut nt = false;
  let verdict = match &res {
    Err(_) => {
      labels.push("panic");
      Verdict::Ok
    }
    Ok(tr) => match tr.unsub_at {
      None => Verdict::Ok,
      Some(k) => {
        let emitted_after = case.script.iter().skip(k + 1).any(|s| matches!(s, Step::Emit(..)));
        nt = tr.live_at_unsub > 0 || tr.timers_at_unsub > 0 || emitted_after;
        if tr.live_at_unsub > 0 || tr.timers_at_unsub > 0 {
          labels.push("task-or-timer-pending-at-cut");
        }
        if matches!(case.script[k], Step::DropGuard) {
          labels.push("guard-drop");
        }
        match tr.recs.iter().find(|r| r.step != usize::MAX && r.step > k) {
          None => Verdict::Ok,
          Some(r) => {
            let mut sig = format!("after-unsubscribe:{}", op_names(&case.node));
            // a shrunk case consisting of throttle with a trailing edge only
            let mut thr = false;
            let mut others = 0;
            case.node.visit(&mut |n| match n {
              Node::Un(Un::ThrottleTime(_, e), ..) | Node::Un(Un::Throttle(e), ..) => {
                if *e != Edge::Leading {
                  thr = true
                }
              }
              Node::Un(..) | Node::Bin(..) | Node::Flat(..) => others += 1,
              _ => {}
            });
            if thr && others == 0 {
              sig = "after-unsubscribe:throttle-trailing".into();
            }
            Verdict::Violation {
              sig,
              detail: format!("unsubscribed during step {k}, but {} was delivered during step {} (t={}): {}", crate::value::ev_short(&r.ev), r.step, r.vt, tr.short()),
            }
          }
        }
      }
    },
  };
  let desc = if ctx.want_desc || matches!(verdict, Verdict::Violation { .. }) {
    let mut j = pcase_json(case);
    j["delivered"] = res.as_ref().map(|t| json!(t.short())).unwrap_or_else(|m| json!({ "panic": m }));
    if let Ok(t) = &res {
      j["tasks_live_at_cut"] = json!(t.live_at_unsub);
      j["timers_pending_at_cut"] = json!(t.timers_at_unsub);
    }
    Some(j)
  } else {
    None
  };
  (verdict, nt, labels, desc)
}

fn run_one_cut(c: &mut dyn Choices, ctx: &Ctx) -> Outcome {
  let mut base = gen_pcase(c, 4, true);
  let pos = c.pick(base.script.len() + 1);
  let guard = c.pick(4) == 0;
  // (appended picks) long variant: the cut stays where it was, relative to the original script
  let shift = maybe_lengthen(c, &mut base);
  let case = with_cut(&base, pos + shift, guard);
  if known_excluded(&case, ctx) {
    return Outcome { labels: vec!["excluded-known"], ..Outcome::discard() };
  }
  let (verdict, nt, labels, desc) = check(&case, ctx);
  Outcome { verdict, nontrivial: nt, hash: hash_of(&case), labels, notes: vec![], desc }
}

fn run_every_cut(c: &mut dyn Choices, ctx: &Ctx) -> Outcome {
  let mut base = gen_pcase(c, 4, true);
  let guard = c.pick(4) == 0;
  maybe_lengthen(c, &mut base);
  if known_excluded(&base, ctx) {
    return Outcome { labels: vec!["excluded-known"], ..Outcome::discard() };
  }
  let mut any_nt = false;
  let mut all_labels: Vec<&'static str> = vec!["every-cut"];
  for pos in 0..=base.script.len() {
    let case = with_cut(&base, pos, guard);
    let (verdict, nt, labels, desc) = check(&case, ctx);
    any_nt |= nt;
    if let Verdict::Violation { .. } = verdict {
      return Outcome { verdict, nontrivial: nt, hash: hash_of(&case), labels, notes: vec![], desc };
    }
    if pos == 0 {
      all_labels.extend(labels);
    }
  }
  let desc = if ctx.want_desc { Some(pcase_json(&base)) } else { None };
  Outcome { verdict: Verdict::Ok, nontrivial: any_nt, hash: hash_of(&base), labels: all_labels, notes: vec![], desc }
}


// ------------------------------------------------------------ engine T part

fn run_threads(c: &mut dyn Choices, ctx: &Ctx) -> Outcome {
  use crate::engine_t::{self, Verdict as TV};
  use crate::tworld::*;
  use rxrust::prelude::*;
  use std::sync::atomic::{AtomicBool, Ordering};
  use std::sync::Arc;
  let pipe = c.pick(PIPES.len());
  let sched_pipe = uses_scheduler(pipe);
  let a_ops: Vec<(usize, u8)> = (0..(1 + c.pick(4))).map(|_| (if pipe == 0 || pipe >= 6 { 0 } else { c.pick(2) }, c.pick(8) as u8)).collect();
  let b_pre: usize = c.pick(3);
  let w_ops: Vec<bool> = if sched_pipe { (0..(1 + c.pick(4))).map(|_| c.pick(3) == 0).collect() } else { vec![] };
  let n = if sched_pipe { 3 } else { 2 };
  let k = c.pick(4);
  let mut preemptions: Vec<(u64, usize)> = (0..k).map(|_| (1 + c.pick(50) as u64, c.pick(n))).collect();
  preemptions.sort();
  preemptions.dedup_by_key(|p| p.0);

  crate::vtime::reset(crate::vtime::Mode::Fifo);
  let w = World::new();
  let cut = Arc::new(AtomicBool::new(false));
  let after = Arc::new(AtomicBool::new(false));
  let probe = TProbe { id: 0, log: w.log.clone(), cut: Some(cut.clone()), after_cut: Some(after.clone()), clock: None, deliveries: None, nest: None };
  let sub = Arc::new(std::sync::Mutex::new(Some(w.pipe(pipe).actual_subscribe(probe))));
  let mut bodies: Vec<Box<dyn FnOnce() + Send>> = vec![];
  {
    let w = w.clone();
    let ops = a_ops.clone();
    bodies.push(Box::new(move || {
      TID.with(|t| t.set(0));
      let mut v = 100;
      for (i, kind) in ops {
        engine_t::call_begin();
        match kind {
          0 => w.hot[i].clone().complete(),
          1 => w.hot[i].clone().error(3),
          _ => {
            v += 1;
            w.hot[i].clone().next(v)
          }
        }
        engine_t::call_end();
      }
    }));
  }
  {
    let w = w.clone();
    let (sub, cut) = (sub.clone(), cut.clone());
    bodies.push(Box::new(move || {
      TID.with(|t| t.set(1));
      let mut v = 200;
      for _ in 0..b_pre {
        v += 1;
        w.hot[1].clone().next(v);
      }
      let s = sub.lock().unwrap().take();
      if let Some(s) = s {
        engine_t::call_begin();
        s.unsubscribe();
        cut.store(true, Ordering::SeqCst); // unsubscribe() has returned
        engine_t::call_end();
      }
      v += 1;
      w.hot[1].clone().next(v);
    }));
  }
  if sched_pipe {
    let w = w.clone();
    let ops = w_ops.clone();
    bodies.push(Box::new(move || {
      TID.with(|t| t.set(2));
      for adv in ops {
        if adv {
          crate::vtime::advance(crate::vtime::ticks(1), false);
        } else {
          w.queue.run_one();
        }
      }
    }));
  }
  let stats = engine_t::run_threads(bodies, preemptions.clone(), 5_000);
  // afterwards: whatever is still scheduled runs now (the flag is up, unless unsubscribe never happened)
  if stats.verdict == TV::Completed {
    for _ in 0..8 {
      while w.queue.run_one() {}
      crate::vtime::advance(crate::vtime::ticks(1), false);
    }
    let mut h = w.hot[0].clone();
    h.next(999);
  }
  let name = PIPES[pipe % PIPES.len()];
  let verdict = match &stats.verdict {
    TV::Completed => {
      if after.load(Ordering::SeqCst) {
        Verdict::Violation { sig: format!("threads:after-unsubscribe:{name}"), detail: format!("a probe callback was entered after unsubscribe() had returned; log: {:?}", w.log.lock().unwrap().iter().map(|(p, m)| format!("{p}:{m:?}")).collect::<Vec<_>>()) }
      } else {
        Verdict::Ok
      }
    }
    other => Verdict::Violation { sig: format!("threads:{}:{name}", match other { TV::Deadlock(_) => "deadlock", TV::LostWakeup(_) => "lost-wakeup", TV::Panic(_) => "panic", _ => "livelock" }), detail: format!("{other:?}") },
  };
  let desc = if ctx.want_desc || matches!(verdict, Verdict::Violation { .. }) {
    Some(json!({"pipeline": name, "thread A (input, 0=complete 1=error else next)": a_ops, "thread B": format!("{b_pre} x next(input 1); unsubscribe; raise flag; next(input 1)"), "thread W (true=advance, false=run task)": w_ops, "preemptions(step->thread)": preemptions}))
  } else {
    None
  };
  let mut labels = vec!["part:threads", name];
  if stats.preempted_inside_call > 0 {
    labels.push("preempted-inside-call");
  }
  Outcome { verdict, nontrivial: stats.preempted_inside_call > 0, hash: hash_of(&(pipe, &a_ops, b_pre, &w_ops, &preemptions)), labels, notes: vec![], desc }
}
