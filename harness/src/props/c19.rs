//! C19 — scheduled tasks run at most once, never early, and stay cancelled.
//! Engine S against the public scheduler API (OnceTask / RepeatTask / FutureTask,
//! NormalReturn / SubscribeReturn) through the virtual scheduler.
use crate::choice::{Choices, ChoicesExt};
use crate::run::*;
use crate::subj::SubHandle;
#[allow(unused_imports)]
use crate::tworld;
use crate::vtime::{self, as_ticks, ticks, Mode, VSched};
use rxrust::prelude::*;
use serde_json::json;
use std::cell::RefCell;
use std::rc::Rc;

pub fn prop() -> Prop {
  Prop {
    id: "C19",
    rule: "case = (1..4 tasks handed to the scheduler at t=0 or later: one-shot (OnceTask, NormalReturn), subscribing one-shot (OnceTask, SubscribeReturn of a probe subscription), repeating (RepeatTask with period 1..3 that declines after k runs; a third of them built with `with_first_delay` and a first delay different from the period), future-driven (FutureTask over a future that waits on the clock); delay none / 0 / 1 / 3 ticks (one case in eight at scale: time unit 0.7 s or 1 s + 1 ns instead of one tick, repeating tasks of 32..72 runs, zero periods); history of <= 10 steps: advance the clock, run the executor, run the i-th ready task, cancel handle i (unsubscribe), sample is_closed() of handle i, schedule the next task; executor FIFO-prompt, FIFO-late or any-ready-task-next). \
           Oracle: a one-shot body runs at most once and, once everything due has been run, exactly once unless cancelled before; never before (time it was scheduled + delay); a repeating task's sequence numbers are 0,1,2,... one period apart at least, and it stops for good when it declines or is cancelled; after unsubscribe() returned the body never starts; a subscribing task cancelled after it ran has its product unsubscribed exactly once, cancelled before it ran never creates one; once is_closed() returned true the body does not run later; the handle of a subscribing task that was never cancelled does not report closed while the subscription the task produced is open. Non-trivial: a cancel between scheduling and completion, or >= 2 tasks ready at once. Distinct by hash(case). \
           Part `threads` (engine T): a one-shot or subscribing task (delay none or 1 tick) is scheduled on a harness-driven multi-thread scheduler (VerifSpawner); a worker thread polls queued tasks / advances the clock while another thread calls unsubscribe() on the handle (or two threads on clones of a shared MutArc<Option<TaskHandle>> cell) and raises a flag when it has returned; the task body contains a yield point between an enter and a leave mark; schedule = <= 3 preemptions. Oracle: the body is not entered with the flag raised and is not inside (entered, not left) at the moment the flag is raised; the product of a subscribing task that ran is unsubscribed exactly once after a cancel.",
    assumptions: &["threads part: sequentially consistent interleavings at lock-acquisition granularity plus one yield inside the task body"],
    parts: vec![
      Part { name: "task-histories", run: run_case, tape_len: 64, quick_cases: 600_000, thorough_cases: 12_000_000, exhaustive_depth: None, exhaustive_budget: 0, exh_quick: false },
      Part { name: "threads", run: run_threads, tape_len: 24, quick_cases: 20_000, thorough_cases: 500_000, exhaustive_depth: None, exhaustive_budget: 0, exh_quick: false },
    ],
  }
}

#[derive(Clone, Debug, Hash, PartialEq, Eq)]
enum TKind {
  Once,
  OnceSub,
  Repeat(u64, usize), // period, number of runs before it declines
  Future(u64),        // waits this long on the clock
}
#[derive(Clone, Debug, Hash, PartialEq, Eq)]
struct TSpec {
  kind: TKind,
  delay: Option<u64>,
  /// repeating tasks only: first run due after this long instead of one period (`RepeatTask::with_first_delay`)
  first: Option<u64>,
}
#[derive(Clone, Debug, Hash, PartialEq, Eq)]
enum Op {
  Schedule,
  Advance(u64),
  Run,
  RunReady(usize),
  Cancel(usize),
  IsClosed(usize),
}
#[derive(Clone, Debug, Hash)]
struct Case {
  tasks: Vec<TSpec>,
  ops: Vec<Op>,
  mode: u8,
}

#[derive(Clone, Debug)]
struct RunRec {
  task: usize,
  seq: usize,
  vt: u64,
  step: usize,
}
#[derive(Default)]
struct World {
  runs: Vec<RunRec>,
  product_unsubs: Vec<usize>, // per task
}
type Sh<T> = Rc<RefCell<T>>;

struct Product(Sh<World>, usize);
impl Subscription for Product {
  fn unsubscribe(self) {
    self.0.borrow_mut().product_unsubs[self.1] += 1;
  }
  fn is_closed(&self) -> bool {
    false
  }
}

fn once_body((w, id): (Sh<World>, usize)) -> NormalReturn<()> {
  w.borrow_mut().runs.push(RunRec { task: id, seq: 0, vt: as_ticks(vtime::now()), step: crate::stamp::get() });
  NormalReturn::new(())
}
fn once_sub_body((w, id): (Sh<World>, usize)) -> SubscribeReturn<Product> {
  w.borrow_mut().runs.push(RunRec { task: id, seq: 0, vt: as_ticks(vtime::now()), step: crate::stamp::get() });
  SubscribeReturn::new(Product(w, id))
}
fn repeat_body(args: &mut (Sh<World>, usize, usize), seq: usize) -> bool {
  args.0.borrow_mut().runs.push(RunRec { task: args.1, seq, vt: as_ticks(vtime::now()), step: crate::stamp::get() });
  seq + 1 < args.2
}
fn future_body(_: (), (w, id): (Sh<World>, usize)) -> NormalReturn<()> {
  w.borrow_mut().runs.push(RunRec { task: id, seq: 0, vt: as_ticks(vtime::now()), step: crate::stamp::get() });
  NormalReturn::new(())
}

fn gen_case(c: &mut dyn Choices) -> Case {
  let n = 1 + c.pick(4);
  let tasks = (0..n)
    .map(|_| TSpec {
      kind: match c.pick(5) {
        0 | 1 => TKind::Once,
        2 => TKind::OnceSub,
        3 => TKind::Repeat(1 + c.pick(3) as u64, 1 + c.pick(3)),
        _ => TKind::Future(c.pick(4) as u64),
      },
      delay: *c.one_of(&[None, Some(0u64), Some(1), Some(3)]),
      first: None,
    })
    .collect();
  let mode = c.pick(3) as u8;
  let len = c.pick(11);
  let ops = (0..len)
    .map(|_| match c.pick(9) {
      0 | 1 => Op::Schedule,
      2 | 3 => Op::Advance(1 + c.pick(3) as u64),
      4 => {
        if mode == 2 {
          Op::RunReady(c.pick(4))
        } else {
          Op::Run
        }
      }
      5 | 6 => Op::Cancel(c.pick(4)),
      7 => Op::IsClosed(c.pick(4)),
      _ => {
        if mode == 2 {
          Op::RunReady(c.pick(4))
        } else {
          Op::Advance(1)
        }
      }
    })
    .collect();
  let mut case = Case { tasks, ops, mode };
  // (appended picks, recorded tapes keep their meaning) one case in eight at scale: time in units of 0.7 s or
  // 1 s + 1 ns instead of single ticks (delays of 0.7 / 2.1 / 3.000000003 s ...), repeating tasks that run 32..72 times,
  // repeating tasks with a zero period
  let mut unit_used = 1u64;
  if c.pick(8) == 7 {
    let unit = *c.one_of(&[1u64, 700_000_000, 1_000_000_001]);
    unit_used = unit;
    let more = c.flag();
    let zero = c.pick(3) == 0;
    for t in case.tasks.iter_mut() {
      t.delay = t.delay.map(|d| d * unit);
      t.kind = match t.kind.clone() {
        TKind::Repeat(p, k) => TKind::Repeat(if zero { 0 } else { p * unit }, if more { k + 31 + c.pick(40) } else { k }),
        TKind::Future(w) => TKind::Future(w * unit),
        k => k,
      };
    }
    for o in case.ops.iter_mut() {
      if let Op::Advance(n) = o {
        *n *= unit;
      }
    }
    if more {
      for _ in 0..2 {
        case.ops.push(Op::Advance(unit * (40 + c.pick(60) as u64)));
        case.ops.push(if case.mode == 2 { Op::RunReady(0) } else { Op::Run });
      }
    }
  }
  // (appended picks, after everything above) repeating tasks: a third of them get a first delay that differs from
  // the period (`RepeatTask::with_first_delay`)
  for t in case.tasks.iter_mut() {
    if let TKind::Repeat(p, _) = t.kind {
      if c.pick(3) == 0 {
        let f = *c.one_of(&[0u64, 1, 2, 5, 7]) * unit_used;
        t.first = Some(if f == p { p + 3 * unit_used } else { f });
      }
    }
  }
  case
}

struct Observed {
  runs: Vec<RunRec>,
  product_unsubs: Vec<usize>,
  scheduled_at: Vec<Option<(u64, usize)>>, // (vt, step)
  cancelled_at: Vec<Option<usize>>,         // step
  closed_true_at: Vec<Option<usize>>,       // first step at which is_closed() returned true
  end_step: usize,
  ready_max: usize,
}

fn execute(case: &Case) -> Observed {
  let mode = match case.mode {
    0 => Mode::Fifo,
    1 => Mode::Lazy,
    _ => Mode::AnyOrder,
  };
  vtime::reset(mode);
  let world: Sh<World> = Rc::new(RefCell::new(World { runs: vec![], product_unsubs: vec![0; case.tasks.len()] }));
  let mut handles: Vec<Option<Box<dyn SubHandle>>> = (0..case.tasks.len()).map(|_| None).collect();
  let mut scheduled_at = vec![None; case.tasks.len()];
  let mut cancelled_at = vec![None; case.tasks.len()];
  let mut closed_true_at = vec![None; case.tasks.len()];
  let mut next = 0usize;
  let prompt = mode == Mode::Fifo;
  let mut ready_max = 0;
  let mut schedule = |i: usize, step: usize, handles: &mut Vec<Option<Box<dyn SubHandle>>>, scheduled_at: &mut Vec<Option<(u64, usize)>>| {
    let spec = &case.tasks[i];
    let d = spec.delay.map(ticks);
    let h: Box<dyn SubHandle> = match &spec.kind {
      TKind::Once => Box::new(VSched.schedule(OnceTask::new(once_body, (world.clone(), i)), d)),
      TKind::OnceSub => Box::new(VSched.schedule(OnceTask::new(once_sub_body, (world.clone(), i)), d)),
      TKind::Repeat(p, k) => match spec.first {
        None => Box::new(VSched.schedule(RepeatTask::new(ticks(*p), repeat_body, (world.clone(), i, *k)), d)),
        Some(f) => Box::new(VSched.schedule(RepeatTask::with_first_delay(ticks(f), ticks(*p), repeat_body, (world.clone(), i, *k)), d)),
      },
      TKind::Future(w) => Box::new(VSched.schedule(FutureTask::new(vtime::new_vtimer_lazy(ticks(*w)), future_body, (world.clone(), i)), d)),
    };
    handles[i] = Some(h);
    scheduled_at[i] = Some((as_ticks(vtime::now()), step));
  };
  crate::stamp::set(0);
  // the first task is scheduled up front
  schedule(0, 0, &mut handles, &mut scheduled_at);
  next = 1.max(next);
  if prompt {
    vtime::run_until_stalled();
  }
  for (k, op) in case.ops.iter().enumerate() {
    let step = k + 1;
    crate::stamp::set(step);
    match op {
      Op::Schedule => {
        if next < case.tasks.len() {
          schedule(next, step, &mut handles, &mut scheduled_at);
          next += 1;
          if prompt {
            vtime::run_until_stalled();
          }
        }
      }
      Op::Advance(n) => vtime::advance(ticks(*n), prompt),
      Op::Run => vtime::run_until_stalled(),
      Op::RunReady(j) => {
        let n = vtime::ready_count();
        ready_max = ready_max.max(n);
        if n > 0 {
          vtime::run_ready(*j % n);
        }
      }
      Op::Cancel(i) => {
        let live: Vec<usize> = handles.iter().enumerate().filter(|(_, h)| h.is_some()).map(|(i, _)| i).collect();
        if !live.is_empty() {
          let t = live[*i % live.len()];
          handles[t].take().unwrap().unsubscribe();
          cancelled_at[t] = Some(step);
        }
      }
      Op::IsClosed(i) => {
        let live: Vec<usize> = handles.iter().enumerate().filter(|(_, h)| h.is_some()).map(|(i, _)| i).collect();
        if !live.is_empty() {
          let t = live[*i % live.len()];
          if handles[t].as_ref().unwrap().is_closed() && closed_true_at[t].is_none() {
            closed_true_at[t] = Some(step);
          }
        }
      }
    }
    ready_max = ready_max.max(vtime::ready_count());
  }
  let end_step = case.ops.len() + 1;
  crate::stamp::set(end_step);
  // every one-shot timer and every remaining period of the repeating tasks
  let periods: usize = case.tasks.iter().map(|t| if let TKind::Repeat(_, k) = t.kind { k } else { 0 }).sum();
  vtime::drain(16 + periods);
  let w = world.borrow();
  Observed { runs: w.runs.clone(), product_unsubs: w.product_unsubs.clone(), scheduled_at, cancelled_at, closed_true_at, end_step, ready_max }
}

fn judge(case: &Case, o: &Observed) -> Result<(), (String, String)> {
  for (i, spec) in case.tasks.iter().enumerate() {
    let runs: Vec<&RunRec> = o.runs.iter().filter(|r| r.task == i).collect();
    let name = match spec.kind {
      TKind::Once => "once",
      TKind::OnceSub => "once-subscribing",
      TKind::Repeat(..) => "repeat",
      TKind::Future(_) => "future",
    };
    let Some((t0, _)) = o.scheduled_at[i] else {
      if !runs.is_empty() {
        return Err((format!("ran-unscheduled:{name}"), format!("task {i} ran without having been scheduled")));
      }
      continue;
    };
    let delay = spec.delay.unwrap_or(0);
    // never early
    // a repeating task's first period runs from its construction, in parallel with the scheduling delay;
    // a future-driven task starts its future when it is first polled, i.e. after the delay
    let earliest = match spec.kind {
      TKind::Repeat(p, _) => t0 + delay.max(spec.first.unwrap_or(p)),
      TKind::Future(w) => t0 + delay + w,
      _ => t0 + delay,
    };
    if let Some(r) = runs.first() {
      if r.vt < earliest {
        return Err((format!("early:{name}"), format!("task {i} scheduled at t={t0} with delay {delay} may not run before t={earliest} but first ran at t={}", r.vt)));
      }
    }
    // stays cancelled
    if let Some(cs) = o.cancelled_at[i] {
      if let Some(r) = runs.iter().find(|r| r.step > cs) {
        return Err((format!("ran-after-cancel:{name}"), format!("task {i} was cancelled during step {cs} but its body ran during step {} (seq {})", r.step, r.seq)));
      }
    }
    // is_closed() == true => no later run
    if let Some(cs) = o.closed_true_at[i] {
      if let Some(r) = runs.iter().find(|r| r.step > cs) {
        return Err((format!("ran-after-closed:{name}"), format!("task {i}: is_closed() returned true during step {cs} but the body ran during step {}", r.step)));
      }
    }
    match &spec.kind {
      TKind::Once | TKind::OnceSub | TKind::Future(_) => {
        if runs.len() > 1 {
          return Err((format!("ran-twice:{name}"), format!("one-shot task {i} ran {} times", runs.len())));
        }
        if o.cancelled_at[i].is_none() && runs.is_empty() {
          return Err((format!("never-ran:{name}"), format!("task {i} was never cancelled, every timer was fired and every ready task run, but its body never ran")));
        }
        if matches!(spec.kind, TKind::OnceSub) {
          // "a handle reports closed only when its task can no longer act": is_closed() is only sampled on handles
          // that were not cancelled, and the product of the task is a subscription that never closes by itself -
          // whatever the task made can still act, so the handle may not report closed
          if let Some(cs) = o.closed_true_at[i] {
            return Err((format!("closed-while-product-open:{name}"), format!("subscribing task {i}: is_closed() returned true during step {cs} although the handle was never unsubscribed and the subscription the task produced is still open")));
          }
          let expect = if o.cancelled_at[i].is_some() && !runs.is_empty() { 1 } else { 0 };
          // (cancelled before it ran: no product; never cancelled: product stays subscribed)
          if o.product_unsubs[i] != expect {
            return Err((format!("product:{name}"), format!("subscribing task {i} (ran: {}, cancelled: {:?}): its product was unsubscribed {} time(s), expected {}", !runs.is_empty(), o.cancelled_at[i], o.product_unsubs[i], expect)));
          }
        }
      }
      TKind::Repeat(p, k) => {
        for (n, r) in runs.iter().enumerate() {
          if r.seq != n {
            return Err((format!("sequence:{name}"), format!("repeating task {i}: sequence numbers {:?}", runs.iter().map(|r| r.seq).collect::<Vec<_>>())));
          }
          if n > 0 && r.vt < runs[n - 1].vt + p {
            return Err((format!("early:{name}"), format!("repeating task {i} (period {p}): run {n} at t={} less than one period after the previous at t={}", r.vt, runs[n - 1].vt)));
          }
        }
        if runs.len() > *k {
          return Err((format!("ran-after-decline:{name}"), format!("repeating task {i} declined after {k} runs but ran {} times", runs.len())));
        }
        if o.cancelled_at[i].is_none() && runs.len() < *k {
          return Err((format!("stopped-early:{name}"), format!("repeating task {i} should run {k} times (never cancelled, all timers fired) but ran {} times", runs.len())));
        }
      }
    }
  }
  Ok(())
}

fn run_case(c: &mut dyn Choices, ctx: &Ctx) -> Outcome {
  let case = gen_case(c);
  let res = guarded_strict(|| execute(&case));
  let mut labels: Vec<&'static str> = vec![match case.mode {
    0 => "mode:fifo",
    1 => "mode:lazy",
    _ => "mode:anyorder",
  }];
  let mut nt = false;
  let verdict = match &res {
    Err(m) => Verdict::Violation { sig: "panic:scheduler".into(), detail: m.clone() },
    Ok(o) => {
      // a cancel between scheduling and completion
      let cancel_mid = (0..case.tasks.len()).any(|i| match (o.scheduled_at[i], o.cancelled_at[i]) {
        (Some((_, s)), Some(cs)) => cs >= s && o.runs.iter().filter(|r| r.task == i).all(|r| r.step >= cs || matches!(case.tasks[i].kind, TKind::Repeat(..))),
        _ => false,
      });
      if cancel_mid {
        labels.push("cancel-before-completion");
      }
      if o.ready_max >= 2 {
        labels.push("two-tasks-ready");
      }
      nt = cancel_mid || o.ready_max >= 2;
      match judge(&case, o) {
        Ok(()) => Verdict::Ok,
        Err((sig, detail)) => Verdict::Violation { sig, detail },
      }
    }
  };
  let desc = if ctx.want_desc || matches!(verdict, Verdict::Violation { .. }) {
    Some(json!({
      "tasks": case.tasks.iter().map(|t| format!("{t:?}")).collect::<Vec<_>>(), "history": case.ops.iter().map(|o| format!("{o:?}")).collect::<Vec<_>>(),
      "executor": labels[0],
      "runs(task, seq, t, step)": res.as_ref().map(|o| json!(o.runs.iter().map(|r| (r.task, r.seq, r.vt, r.step)).collect::<Vec<_>>())).unwrap_or_else(|m| json!({"panic": m})),
    }))
  } else {
    None
  };
  Outcome { verdict, nontrivial: nt, hash: hash_of(&case), labels, notes: vec![], desc }
}


// ------------------------------------------------------------ engine T part

struct TWorld {
  marks: std::sync::Mutex<Vec<(&'static str, bool)>>, // (mark, flag raised at that moment)
  flag: std::sync::atomic::AtomicBool,
  product_unsubs: std::sync::atomic::AtomicUsize,
}
struct TProduct(std::sync::Arc<TWorld>);
impl Subscription for TProduct {
  fn unsubscribe(self) {
    self.0.product_unsubs.fetch_add(1, std::sync::atomic::Ordering::SeqCst);
  }
  fn is_closed(&self) -> bool {
    false
  }
}
fn t_enter(w: &std::sync::Arc<TWorld>) {
  let f = w.flag.load(std::sync::atomic::Ordering::SeqCst);
  w.marks.lock().unwrap().push(("enter", f));
  crate::engine_t::explicit_yield();
  let f = w.flag.load(std::sync::atomic::Ordering::SeqCst);
  w.marks.lock().unwrap().push(("leave", f));
}
fn t_once(w: std::sync::Arc<TWorld>) -> NormalReturn<()> {
  t_enter(&w);
  NormalReturn::new(())
}
fn t_once_sub(w: std::sync::Arc<TWorld>) -> SubscribeReturn<TProduct> {
  t_enter(&w);
  SubscribeReturn::new(TProduct(w))
}

fn run_threads(c: &mut dyn Choices, ctx: &Ctx) -> Outcome {
  use crate::engine_t::{self, Verdict as TV};
  use crate::tworld::TaskQueue;
  use std::sync::atomic::Ordering;
  use std::sync::Arc;
  let subscribing = c.flag();
  let delay = if c.flag() { Some(1u64) } else { None };
  let w_ops: Vec<bool> = (0..(1 + c.pick(4))).map(|_| c.pick(3) == 0).collect(); // true = advance
  let cancel_after: usize = c.pick(2); // canceller first does this many no-op yields
  let shared = c.pick(3) == 0;
  let nthreads = if shared { 3 } else { 2 };
  let k = c.pick(4);
  let mut preemptions: Vec<(u64, usize)> = (0..k).map(|_| (1 + c.pick(20) as u64, c.pick(nthreads))).collect();
  preemptions.sort();
  preemptions.dedup_by_key(|p| p.0);

  crate::vtime::reset(crate::vtime::Mode::Fifo);
  let world = Arc::new(TWorld { marks: Default::default(), flag: Default::default(), product_unsubs: Default::default() });
  let queue = Arc::new(TaskQueue::default());
  let sched = queue.spawner();
  let d = delay.map(ticks);
  let mut handle: Option<Box<dyn SubHandle + Send>> = None;
  let mut shared_handles: Option<(Box<dyn SubHandle + Send>, Box<dyn SubHandle + Send>)> = None;
  if shared {
    use rxrust::rc::MutArc;
    if subscribing {
      let cell = MutArc::own(Some(sched.schedule(OnceTask::new(t_once_sub, world.clone()), d)));
      shared_handles = Some((Box::new(cell.clone()), Box::new(cell)));
    } else {
      let cell = MutArc::own(Some(sched.schedule(OnceTask::new(t_once, world.clone()), d)));
      shared_handles = Some((Box::new(cell.clone()), Box::new(cell)));
    }
  } else if subscribing {
    handle = Some(Box::new(sched.schedule(OnceTask::new(t_once_sub, world.clone()), d)));
  } else {
    handle = Some(Box::new(sched.schedule(OnceTask::new(t_once, world.clone()), d)));
  }
  let worker: Box<dyn FnOnce() + Send> = {
    let q = queue.clone();
    let ops = w_ops.clone();
    Box::new(move || {
      for adv in ops {
        if adv {
          crate::vtime::advance(ticks(1), false);
        } else {
          q.run_one();
        }
      }
    })
  };
  // with `shared` the handle sits in a MutArc<Option<..>> cell (the form in which debounce / throttle keep
  // their task) and two threads cancel through clones of that cell
  let mk_canceller = |handle: Box<dyn SubHandle + Send>, waits: usize| -> Box<dyn FnOnce() + Send> {
    let w = world.clone();
    Box::new(move || {
      for _ in 0..waits {
        engine_t::explicit_yield();
      }
      engine_t::call_begin();
      handle.unsubscribe();
      w.flag.store(true, Ordering::SeqCst);
      let inside = {
        let m = w.marks.lock().unwrap();
        m.iter().filter(|(k, _)| *k == "enter").count() > m.iter().filter(|(k, _)| *k == "leave").count()
      };
      if inside {
        w.marks.lock().unwrap().push(("flag-raised-while-inside", true));
      }
      engine_t::call_end();
    })
  };
  let mut bodies: Vec<Box<dyn FnOnce() + Send>> = vec![worker];
  if shared {
    let (h1, h2) = shared_handles.expect("shared handles");
    bodies.push(mk_canceller(h1, cancel_after));
    bodies.push(mk_canceller(h2, 1));
  } else {
    bodies.push(mk_canceller(handle.expect("handle"), cancel_after));
  }
  let stats = engine_t::run_threads(bodies, preemptions.clone(), 2_000);
  if stats.verdict == TV::Completed {
    for _ in 0..4 {
      while queue.run_one() {}
      crate::vtime::advance(ticks(1), false);
    }
  }
  let marks = world.marks.lock().unwrap().clone();
  let name = if subscribing { "once-subscribing" } else { "once" };
  let verdict = match &stats.verdict {
    TV::Completed => {
      let ran = marks.iter().any(|(k, _)| *k == "enter");
      if marks.iter().any(|(k, f)| *k == "enter" && *f) {
        Verdict::Violation { sig: format!("threads:started-after-cancel:{name}"), detail: format!("the task body was entered after unsubscribe() had returned: {marks:?}") }
      } else if marks.iter().any(|(k, _)| *k == "flag-raised-while-inside") {
        Verdict::Violation { sig: format!("threads:still-running:{name}"), detail: format!("unsubscribe() returned while the task body was still running: {marks:?}") }
      } else if marks.iter().filter(|(k, _)| *k == "enter").count() > 1 {
        Verdict::Violation { sig: format!("threads:ran-twice:{name}"), detail: format!("{marks:?}") }
      } else if subscribing && world.product_unsubs.load(Ordering::SeqCst) != ran as usize {
        Verdict::Violation { sig: format!("threads:product:{name}"), detail: format!("the task {} and was cancelled, but its product was unsubscribed {} time(s)", if ran { "ran" } else { "never ran" }, world.product_unsubs.load(Ordering::SeqCst)) }
      } else {
        Verdict::Ok
      }
    }
    other => Verdict::Violation { sig: format!("threads:{}:{name}", match other { TV::Deadlock(_) => "deadlock", TV::LostWakeup(_) => "lost-wakeup", TV::Panic(_) => "panic", _ => "livelock" }), detail: format!("{other:?}") },
  };
  let desc = if ctx.want_desc || matches!(verdict, Verdict::Violation { .. }) {
    Some(json!({"task": name, "handle": if shared {"MutArc<Option<TaskHandle>> cell, two cancelling threads"} else {"TaskHandle, one cancelling thread"}, "delay": delay, "worker(true=advance,false=run one task)": w_ops, "canceller_waits": cancel_after, "preemptions(step->thread; 0=worker 1=canceller)": preemptions, "marks(mark, flag)": format!("{marks:?}")}))
  } else {
    None
  };
  Outcome { verdict, nontrivial: stats.preemptions_taken > 0, hash: hash_of(&(subscribing, shared, delay, &w_ops, cancel_after, &preemptions)), labels: vec!["part:threads"], notes: vec![], desc }
}
