//! C12 — BehaviorSubject hands every new subscriber the current value first.
//! Engine S: model-based testing over API histories on several clones.
use crate::choice::{Choices, ChoicesExt};
use crate::run::*;
use crate::subj::SEvt;
use rxrust::prelude::*;
use serde_json::json;
use std::sync::{Arc, Mutex};

pub fn prop() -> Prop {
  Prop {
    id: "C12",
    rule: "case = (BehaviorSubject over Subject or SubjectThreads, initial value 100; history of <= 10 operations (one in eight: preceded by a crowd of 33..130 subscribers of which none / some / all but one leave again), each through one of <= 3 clones made at generated moments: next(v) with numbered values, next_by(+1000), clone, subscribe a probe, unsubscribe one probe, peek, complete, error, subscribe a probe that calls peek() from inside its callback, subscribe a probe that subscribes a further probe from inside its callback while its second item is delivered, unsubscribe() on the BehaviorSubject itself, sample is_closed()). \
           Oracle (model = current value + live subscribers): after unsubscribe() through any clone nothing is delivered to anybody and is_closed() is true on every clone, on a live subject it is false; peek() from inside a callback returns the item being delivered; a probe subscribed from inside a callback starts with the item being delivered and then gets every later item once; peek() == most recent value passed to any clone (initial value if none), also after a terminal; a new subscriber's first notification is that value (also when it joins after a terminal), then every later item exactly once in order, then the terminal once; next_by(f) emits f(current value); nothing is delivered to unsubscribed probes or after a terminal. Non-trivial: a value written through one clone is read (peek / subscribe / next_by) through another clone. Distinct by hash(case). Part `threads` (engine T): BehaviorSubject over SubjectThreads with one probe subscribed up front; two producer threads each send 1..2 numbered values through their own clone, a third thread subscribes a late probe; schedule = <= 3 preemptions at lock-acquisition granularity. Oracle: when all threads have finished, peek() equals the last value the up-front probe received (the common delivered order); the late probe's first value is the initial value or one of the produced values and it receives no value twice; no deadlock / panic. Part `short` enumerates all histories of length <= 5 (thorough tier).",
    assumptions: &["threads part: sequentially consistent interleavings at lock-acquisition granularity"],
    parts: vec![
      Part { name: "histories", run: run_random, tape_len: 48, quick_cases: 800_000, thorough_cases: 16_000_000, exhaustive_depth: None, exhaustive_budget: 0, exh_quick: false },
      Part { name: "threads", run: run_engine_t, tape_len: 24, quick_cases: 20_000, thorough_cases: 500_000, exhaustive_depth: None, exhaustive_budget: 0, exh_quick: false },
      Part { name: "short", run: run_short, tape_len: 16, quick_cases: 0, thorough_cases: 0, exhaustive_depth: Some(13), exhaustive_budget: 40_000_000, exh_quick: false },
    ],
  }
}

#[derive(Clone, Debug, Hash, PartialEq, Eq)]
enum Op {
  Next(usize),
  NextBy(usize),
  CloneOf(usize),
  Subscribe(usize),
  UnsubOne(usize),
  Peek(usize),
  Complete(usize),
  Error(usize),
  /// subscribe a probe whose `next` callback calls `peek()` on a clone and records (item, peeked value)
  SubscribePeeker(usize),
  /// subscribe a probe that subscribes a further probe from inside its callback, while its second item is delivered
  SubscribeNester(usize),
  /// `unsubscribe()` on a clone of the BehaviorSubject itself
  UnsubSubject(usize),
  /// sample `is_closed()` of a clone
  IsClosed(usize),
}

type Log = Arc<Mutex<Vec<(usize, SEvt)>>>;

/// what a probe does from inside its `next` callback
/// a parked subscription handle; histories run on one thread, the wrapper only satisfies the `Send` bound that the
/// thread-safe subject puts on its observers
struct Parked(#[allow(dead_code)] Box<dyn FnOnce()>);
unsafe impl Send for Parked {}

enum InCb<S: rxrust::rc::AssociatedRefPtr> {
  Nothing,
  /// peek through this clone; results go to the shared list as (item, peeked)
  Peek(BehaviorSubject<i64, S>, Arc<Mutex<Vec<(i64, i64)>>>),
  /// while the second item is delivered: subscribe probe `1000 + id` through this clone; the handle is parked in the list
  Nest(BehaviorSubject<i64, S>, Arc<Mutex<Vec<Parked>>>),
}
struct P<S: rxrust::rc::AssociatedRefPtr> {
  id: usize,
  log: Log,
  seen: usize,
  incb: InCb<S>,
}
macro_rules! impl_probe {
  ($subj:ty) => {
    impl Observer<i64, u8> for P<$subj> {
      fn next(&mut self, v: i64) {
        self.log.lock().unwrap().push((self.id, SEvt::N(v)));
        self.seen += 1;
        match &self.incb {
          InCb::Nothing => {}
          InCb::Peek(b, out) => {
            let p = b.peek();
            out.lock().unwrap().push((v, p));
          }
          InCb::Nest(b, park) => {
            if self.seen == 2 {
              let inner = P::<$subj> { id: 1000 + self.id, log: self.log.clone(), seen: 0, incb: InCb::Nothing };
              let u = b.clone().actual_subscribe(inner);
              park.lock().unwrap().push(Parked(Box::new(move || drop(u))));
            }
          }
        }
      }
      fn error(self, e: u8) {
        self.log.lock().unwrap().push((self.id, SEvt::E(e)))
      }
      fn complete(self) {
        self.log.lock().unwrap().push((self.id, SEvt::C))
      }
      fn is_finished(&self) -> bool {
        false
      }
    }
  };
}
impl_probe!(Subject<'static, i64, u8>);
impl_probe!(SubjectThreads<i64, u8>);

/// what the real object did: (peek results in order, delivery log)
macro_rules! impl_run {
  ($name:ident, $subj:ty) => {
    fn $name(initial_clones: usize, ops: &[Op]) -> (Vec<i64>, Vec<(usize, SEvt)>, Vec<(i64, i64)>, Vec<bool>) {
      let log: Log = Arc::new(Mutex::new(vec![]));
      let mut clones = vec![BehaviorSubject::<i64, $subj>::new(100)];
      for _ in 1..initial_clones {
        let k = clones[0].clone();
        clones.push(k);
      }
      let mut subs: Vec<Option<<$subj as Observable<i64, u8, P<$subj>>>::Unsub>> = vec![];
      let inpeeks: Arc<Mutex<Vec<(i64, i64)>>> = Arc::new(Mutex::new(vec![]));
      let park: Arc<Mutex<Vec<Parked>>> = Arc::new(Mutex::new(vec![]));
      let mut peeks = vec![];
      let mut closed = vec![];
      let mut item = 0;
      let mut next_probe = 0;
      for op in ops {
        let n = clones.len();
        match op {
          Op::Next(c) => {
            item += 1;
            clones[*c % n].next(item)
          }
          Op::NextBy(c) => clones[*c % n].next_by(|v| v + 1000),
          Op::CloneOf(c) => {
            if n < 3 {
              let k = clones[*c % n].clone();
              clones.push(k)
            }
          }
          Op::Subscribe(c) => {
            let p = P::<$subj> { id: next_probe, log: log.clone(), seen: 0, incb: InCb::Nothing };
            next_probe += 1;
            subs.push(Some(clones[*c % n].clone().actual_subscribe(p)));
          }
          Op::SubscribePeeker(c) | Op::SubscribeNester(c) => {
            let b = clones[*c % n].clone();
            let incb = if matches!(op, Op::SubscribePeeker(_)) { InCb::Peek(b, inpeeks.clone()) } else { InCb::Nest(b, park.clone()) };
            let p = P::<$subj> { id: next_probe, log: log.clone(), seen: 0, incb };
            next_probe += 1;
            subs.push(Some(clones[*c % n].clone().actual_subscribe(p)));
          }
          Op::UnsubOne(i) => {
            let live: Vec<usize> = subs.iter().enumerate().filter(|(_, s)| s.is_some()).map(|(i, _)| i).collect();
            if !live.is_empty() {
              subs[live[*i % live.len()]].take().unwrap().unsubscribe();
            }
          }
          Op::Peek(c) => peeks.push(clones[*c % n].peek()),
          Op::Complete(c) => clones[*c % n].clone().complete(),
          Op::Error(c) => clones[*c % n].clone().error(9),
          Op::UnsubSubject(c) => clones[*c % n].clone().unsubscribe(),
          Op::IsClosed(c) => closed.push(clones[*c % n].is_closed()),
        }
      }
      let l = log.lock().unwrap().clone();
      let ip = inpeeks.lock().unwrap().clone();
      // break the cycles probe -> subject clone -> probe
      drop(subs);
      drop(clones);
      park.lock().unwrap().clear();
      (peeks, l, ip, closed)
    }
  };
}
impl_run!(run_local, Subject<'static, i64, u8>);
impl_run!(run_threads, SubjectThreads<i64, u8>);

struct Expect {
  peeks: Vec<i64>,
  /// expected is_closed() samples: Some(true) after unsubscribe() through any clone, Some(false) on a live subject,
  /// None (not judged) after a terminal
  closed: Vec<Option<bool>>,
  /// (probe id, expected notifications)
  per_sub: Vec<(usize, Vec<SEvt>)>,
  in_callback: bool,
  cross_clone_read: bool,
}

fn model(initial_clones: usize, ops: &[Op]) -> Expect {
  let mut value = 100i64;
  let mut n_clones = initial_clones;
  let mut subs: Vec<(bool, Vec<SEvt>)> = vec![]; // (alive, expected)
  let mut ids: Vec<usize> = vec![];
  let mut nester: Vec<bool> = vec![];
  let mut next_probe = 0usize;
  let mut in_callback = false;
  let mut handle_alive: Vec<bool> = vec![];
  let mut dead = false;
  let mut peeks = vec![];
  let mut closed: Vec<Option<bool>> = vec![];
  let mut unsubscribed = false;
  let mut item = 0;
  let mut last_writer: Option<usize> = None;
  let mut cross = false;
  for op in ops {
    match op {
      Op::Next(c) | Op::NextBy(c) => {
        let c = *c % n_clones;
        let v = if matches!(op, Op::Next(_)) {
          item += 1;
          item
        } else {
          if last_writer.map_or(false, |w| w != c) {
            cross = true;
          }
          value + 1000
        };
        value = v;
        last_writer = Some(c);
        if !dead {
          let mut born: Vec<usize> = vec![];
          for (k, s) in subs.iter_mut().enumerate().filter(|(_, s)| s.0) {
            s.1.push(SEvt::N(v));
            // a nester subscribes a new probe while its second item is delivered: that probe starts with the value
            // being delivered and is not part of the broadcast under way
            if nester[k] && s.1.len() == 2 {
              born.push(ids[k]);
            }
          }
          for b in born {
            subs.push((true, vec![SEvt::N(v)]));
            ids.push(1000 + b);
            nester.push(false);
            in_callback = true;
          }
        }
      }
      Op::CloneOf(_) => {
        if n_clones < 3 {
          n_clones += 1
        }
      }
      Op::Subscribe(c) => {
        if last_writer.map_or(false, |w| w != *c % n_clones) {
          cross = true;
        }
        subs.push((!dead, vec![SEvt::N(value)]));
        ids.push(next_probe);
        nester.push(false);
        next_probe += 1;
        handle_alive.push(true);
      }
      Op::SubscribePeeker(c) | Op::SubscribeNester(c) => {
        if last_writer.map_or(false, |w| w != *c % n_clones) {
          cross = true;
        }
        if matches!(op, Op::SubscribePeeker(_)) {
          in_callback = true;
        }
        subs.push((!dead, vec![SEvt::N(value)]));
        ids.push(next_probe);
        nester.push(matches!(op, Op::SubscribeNester(_)));
        next_probe += 1;
        handle_alive.push(true);
      }
      Op::UnsubOne(i) => {
        let live: Vec<usize> = handle_alive.iter().enumerate().filter(|(_, a)| **a).map(|(i, _)| i).collect();
        if !live.is_empty() {
          let k = live[*i % live.len()];
          handle_alive[k] = false;
          // (handles index the probes made by subscribe operations; probes born inside callbacks come later in `subs`)
          let pos = ids.iter().position(|i| *i == k).unwrap();
          subs[pos].0 = false;
        }
      }
      Op::Peek(c) => {
        if last_writer.map_or(false, |w| w != *c % n_clones) {
          cross = true;
        }
        peeks.push(value)
      }
      Op::UnsubSubject(_) => {
        // the subject is torn down: nobody receives anything any more (no terminal either)
        for s in subs.iter_mut() {
          s.0 = false;
        }
        dead = true;
        unsubscribed = true;
      }
      Op::IsClosed(_) => closed.push(if unsubscribed { Some(true) } else if dead { None } else { Some(false) }),
      Op::Complete(_) | Op::Error(_) => {
        if !dead {
          let ev = if matches!(op, Op::Complete(_)) { SEvt::C } else { SEvt::E(9) };
          for s in subs.iter_mut().filter(|s| s.0) {
            s.1.push(ev.clone());
            s.0 = false;
          }
          dead = true;
        }
      }
    }
  }
  Expect { peeks, closed, per_sub: ids.into_iter().zip(subs.into_iter().map(|s| s.1)).collect(), in_callback, cross_clone_read: cross }
}

fn finish(threads: bool, k: usize, ops: Vec<Op>, ctx: &Ctx) -> Outcome {
  let exp = model(k, &ops);
  let res = guarded(|| if threads { run_threads(k, &ops) } else { run_local(k, &ops) });
  let kind = if threads { "SubjectThreads" } else { "Subject" };
  let mut labels = vec![kind];
  if exp.cross_clone_read {
    labels.push("cross-clone-read");
  }
  if exp.in_callback {
    labels.push("peek-or-subscribe-inside-callback");
  }
  let verdict = match &res {
    Err(m) => Verdict::Violation { sig: format!("panic:BehaviorSubject<{kind}>"), detail: m.clone() },
    Ok((peeks, log, inpeeks, closed)) => {
      if let Some((v, p)) = inpeeks.iter().find(|(v, p)| v != p) {
        Verdict::Violation { sig: format!("peek-in-callback:BehaviorSubject<{kind}>"), detail: format!("peek() called from a subscriber's callback while item {v} was delivered returned {p}") }
      } else if let Some(k) = closed.iter().zip(exp.closed.iter()).position(|(g, e)| e.map_or(false, |e| e != *g)) {
        Verdict::Violation { sig: format!("is_closed:BehaviorSubject<{kind}>"), detail: format!("is_closed() sample #{k} returned {} ({})", closed[k], if closed[k] { "although the subject was neither terminated nor unsubscribed" } else { "although unsubscribe() had returned on a clone of the same subject" }) }
      } else if *peeks != exp.peeks {
        Verdict::Violation { sig: format!("peek:BehaviorSubject<{kind}>"), detail: format!("peek() returned {:?}, expected {:?}", peeks, exp.peeks) }
      } else {
        let mut v = Verdict::Ok;
        for (id, e) in exp.per_sub.iter() {
          let got: Vec<SEvt> = log.iter().filter(|(i, _)| i == id).map(|(_, e)| e.clone()).collect();
          if got != *e {
            let k = if got.first() != e.first() { "first-value" } else { "trace" };
            v = Verdict::Violation { sig: format!("{k}:BehaviorSubject<{kind}>"), detail: format!("subscriber {id} received {:?}, expected {:?}", got, e) };
            break;
          }
        }
        v
      }
    }
  };
  let desc = if ctx.want_desc || matches!(verdict, Verdict::Violation { .. }) {
    Some(json!({
      "subject": format!("BehaviorSubject<i64, {kind}>::new(100), {k} clone(s) made up front"), "history": ops.iter().map(|o| format!("{o:?}")).collect::<Vec<_>>(),
      "observed": res.as_ref().map(|(p, l, ip, cl)| json!({"peeks": p, "is_closed_samples": cl, "peeks_in_callbacks(item, peeked)": ip, "delivered(subscriber,event)": l.iter().map(|(i,e)| format!("{i}:{e:?}")).collect::<Vec<_>>()})).unwrap_or_else(|m| json!({"panic": m})),
    }))
  } else {
    None
  };
  Outcome { verdict, nontrivial: exp.cross_clone_read, hash: hash_of(&(threads, k, &ops)), labels, notes: vec![], desc }
}

fn gen_op(c: &mut dyn Choices, compact: bool) -> Op {
  let k = if compact { 2 } else { 3 };
  match c.pick(if compact { 8 } else { 16 }) {
    0 => Op::Next(c.pick(k)),
    1 => Op::NextBy(c.pick(k)),
    2 => Op::CloneOf(0),
    3 => Op::Subscribe(c.pick(k)),
    4 => Op::UnsubOne(0),
    5 => Op::Peek(c.pick(k)),
    6 => Op::Complete(c.pick(k)),
    7 => Op::Error(0),
    8 | 9 => Op::Next(c.pick(k)),
    10 => Op::Subscribe(c.pick(k)),
    11 => Op::Peek(c.pick(k)),
    // (alternatives added at the high end: recorded tapes keep their meaning)
    12 => Op::SubscribePeeker(c.pick(k)),
    13 => Op::SubscribeNester(c.pick(k)),
    14 => Op::UnsubSubject(c.pick(k)),
    _ => Op::IsClosed(c.pick(k)),
  }
}

fn run_random(c: &mut dyn Choices, ctx: &Ctx) -> Outcome {
  let threads = c.flag();
  let k = 1 + c.pick(3);
  let n = c.pick(11);
  let mut ops: Vec<Op> = (0..n).map(|_| gen_op(c, false)).collect();
  // (appended picks, recorded tapes keep their meaning) one history in eight starts with a crowd: 33..45 (or 64 / 65 /
  // 130) probes subscribe, then nobody / the first / one in the middle and the first / all but one leave again
  if c.pick(8) == 7 {
    let m = crate::ast::pick_size(c, 33, 13, &[64, 65, 130]);
    let mut pre: Vec<Op> = (0..m).map(|_| Op::Subscribe(0)).collect();
    match c.pick(4) {
      0 => {}
      1 => pre.push(Op::UnsubOne(0)),
      2 => {
        pre.push(Op::UnsubOne(m / 2));
        pre.push(Op::UnsubOne(0));
      }
      _ => pre.extend((0..m - 1).map(|_| Op::UnsubOne(0))),
    }
    if c.flag() {
      pre.push(Op::Next(0));
      pre.push(Op::Next(0));
    }
    pre.extend(ops);
    ops = pre;
  }
  finish(threads, k, ops, ctx)
}
fn run_short(c: &mut dyn Choices, ctx: &Ctx) -> Outcome {
  let threads = c.flag();
  let k = 1 + c.pick(2);
  let n = c.pick(6);
  let ops = (0..n).map(|_| gen_op(c, true)).collect();
  finish(threads, k, ops, ctx)
}


// ------------------------------------------------------------ engine T part

fn run_engine_t(c: &mut dyn Choices, ctx: &Ctx) -> Outcome {
  use crate::engine_t::{self, Verdict as TV};
  let n1 = 1 + c.pick(2);
  let n2 = 1 + c.pick(2);
  let late = c.flag();
  let nthreads = if late { 3 } else { 2 };
  let k = c.pick(4);
  let mut preemptions: Vec<(u64, usize)> = (0..k).map(|_| (1 + c.pick(30) as u64, c.pick(nthreads))).collect();
  preemptions.sort();
  preemptions.dedup_by_key(|p| p.0);
  crate::vtime::reset(crate::vtime::Mode::Fifo);
  let log: Log = Arc::new(Mutex::new(vec![]));
  let bs = BehaviorSubject::<i64, SubjectThreads<i64, u8>>::new(100);
  let _s0 = bs.clone().actual_subscribe(P::<SubjectThreads<i64, u8>> { id: 0, log: log.clone(), seen: 0, incb: InCb::Nothing });
  let mut bodies: Vec<Box<dyn FnOnce() + Send>> = vec![];
  for (t, n) in [(0usize, n1), (1usize, n2)] {
    let mut b = bs.clone();
    bodies.push(Box::new(move || {
      for i in 0..n {
        engine_t::call_begin();
        b.next(((t as i64 + 1) * 10) + i as i64);
        engine_t::call_end();
      }
    }));
  }
  if late {
    let b = bs.clone();
    let lg = log.clone();
    bodies.push(Box::new(move || {
      engine_t::call_begin();
      let s = b.actual_subscribe(P::<SubjectThreads<i64, u8>> { id: 1, log: lg, seen: 0, incb: InCb::Nothing });
      engine_t::call_end();
      std::mem::forget(s);
    }));
  }
  let stats = engine_t::run_threads(bodies, preemptions.clone(), 3_000);
  let peek = bs.peek();
  let lg = log.lock().unwrap().clone();
  let seen0: Vec<i64> = lg.iter().filter(|(i, _)| *i == 0).filter_map(|(_, e)| if let SEvt::N(v) = e { Some(*v) } else { None }).collect();
  let seen1: Vec<i64> = lg.iter().filter(|(i, _)| *i == 1).filter_map(|(_, e)| if let SEvt::N(v) = e { Some(*v) } else { None }).collect();
  let verdict = match &stats.verdict {
    TV::Completed => {
      let last = *seen0.last().unwrap_or(&100);
      let mut dedup = seen1.clone();
      dedup.sort();
      dedup.dedup();
      if peek != last {
        let sig = "threads:peek-vs-last-delivered:BehaviorSubject<SubjectThreads>".to_string();
        if ctx.known(&sig) {
          Verdict::Ok
        } else {
          Verdict::Violation { sig, detail: format!("all producers have finished: subscribers received {:?} (last {last}) but peek() == {peek}", seen0) }
        }
      } else if dedup.len() != seen1.len() && !ctx.known("threads:duplicate:BehaviorSubject<SubjectThreads>") {
        Verdict::Violation { sig: "threads:duplicate:BehaviorSubject<SubjectThreads>".into(), detail: format!("the late subscriber received {:?}", seen1) }
      } else if seen0.len() != 1 + n1 + n2 {
        Verdict::Violation { sig: "threads:lost:BehaviorSubject<SubjectThreads>".into(), detail: format!("the up-front subscriber received {:?}, expected the initial value and {} items", seen0, n1 + n2) }
      } else {
        Verdict::Ok
      }
    }
    other => Verdict::Violation { sig: format!("threads:{}:BehaviorSubject<SubjectThreads>", match other { TV::Deadlock(_) => "deadlock", TV::LostWakeup(_) => "lost-wakeup", TV::Panic(_) => "panic", _ => "livelock" }), detail: format!("{other:?}") },
  };
  let excluded = stats.verdict == TV::Completed && {
    let mut d = seen1.clone();
    d.sort();
    d.dedup();
    d.len() != seen1.len() && ctx.known("threads:duplicate:BehaviorSubject<SubjectThreads>")
  };
  let desc = if ctx.want_desc || matches!(verdict, Verdict::Violation { .. }) {
    Some(json!({"producers": [n1, n2], "late_subscriber": late, "preemptions(step->thread)": preemptions, "up_front_subscriber_received": seen0, "late_subscriber_received": seen1, "peek_at_end": peek}))
  } else {
    None
  };
  let mut labels = vec!["part:threads"];
  if excluded {
    labels.push("excluded-known");
  }
  Outcome { verdict, nontrivial: stats.preemptions_taken > 0, hash: hash_of(&(n1, n2, late, &preemptions)), labels, notes: vec![], desc }
}
