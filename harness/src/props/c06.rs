//! C06 — subjects deliver each item once, in order, to exactly the current subscribers.
//! Engine S: model-based testing over API histories (random + bounded-exhaustive).
use crate::choice::{Choices, ChoicesExt};
use crate::run::*;
use crate::subj::*;
use serde_json::json;
use std::sync::{Arc, Mutex};

pub fn prop() -> Prop {
  Prop {
    id: "C06",
    rule: "case = (subject type in Subject / SubjectThreads / MutRefItemSubject / MutRefErrSubject / MutRefItemErrSubject; history of <= 10 operations over <= 4 subscribers (one history in eight: 33..45 subscribers or in-callback subscribers up front): subscribe, subscribe a probe that subscribes a further probe to a clone of the subject from inside its first callback, unsubscribe one subscription, next (numbered items), error, complete, retain, unsubscribe the subject; every operation goes through a fresh clone of the subject). \
           Oracle (model = ordered list of live subscribers): every subscriber's trace equals the items sent while it was subscribed (joined before the emission began, not yet unsubscribed), each exactly once and in order, then the subject's terminal once; the in-callback subscriber does not see the in-flight item and sees every later one; after a terminal or unsubscribe() nothing is delivered to anybody and is_finished() and is_empty() are true; before that is_finished() is false. Non-trivial: a join or leave between two emissions, or an emission after a terminal/unsubscribe, or an in-callback join. Distinct by hash(case). Part `short` enumerates every history of length <= 5 for every subject type (thorough tier). \
           Part `threads` (engine T): 2..3 threads each run <= 4 operations (next / complete / error / subscribe / subscribe a probe that subscribes another from inside its callback / unsubscribe / retain / is_empty+len) on one shared SubjectThreads with 1..2 probes subscribed up front, under a generated schedule of <= 3 preemptions at lock-acquisition granularity. Oracle: an item whose next() began after a subscriber's subscribe() had returned, and ended before any unsubscribe of that subscriber or any terminal began, is received by that subscriber exactly once; nobody receives an item twice, or an item whose next() began after its unsubscribe() had returned or ended before its subscribe() began; items of one producer arrive in order; at most one terminal per subscriber and nothing after it; no deadlock / panic.",
    assumptions: &[
      "len() of a live subject is not constrained by the statement and is not checked",
      "a subscriber that joins after the subject terminated must receive nothing (it may or may not be told about the terminal: not checked)",
      "threads part: interleavings at lock-acquisition granularity, sequentially consistent",
    ],
    parts: vec![
      Part { name: "histories", run: run_random, tape_len: 48, quick_cases: 1_000_000, thorough_cases: 20_000_000, exhaustive_depth: None, exhaustive_budget: 0, exh_quick: false },
      Part { name: "short", run: run_short, tape_len: 16, quick_cases: 0, thorough_cases: 0, exhaustive_depth: Some(12), exhaustive_budget: 40_000_000, exh_quick: false },
      Part { name: "threads", run: run_threads, tape_len: 48, quick_cases: 30_000, thorough_cases: 1_000_000, exhaustive_depth: None, exhaustive_budget: 0, exh_quick: false },
    ],
  }
}

#[derive(Clone, Debug, Hash, PartialEq, Eq)]
pub enum Op {
  Subscribe,
  SubscribeNesting,
  /// subscribe this many probes at once (scale: lists longer than the inline capacity / any threshold)
  SubscribeMany(usize),
  SubscribeNestingMany(usize),
  UnsubOne(usize),
  Next,
  Error,
  Complete,
  Retain,
  UnsubscribeSubject,
}

fn gen_op(c: &mut dyn Choices) -> Op {
  match c.pick(12) {
    0 | 1 => Op::Subscribe,
    2 => Op::SubscribeNesting,
    3 | 4 => Op::UnsubOne(c.pick(4)),
    5..=8 => Op::Next,
    9 => {
      if c.flag() {
        Op::Error
      } else {
        Op::Complete
      }
    }
    10 => Op::Retain,
    _ => Op::UnsubscribeSubject,
  }
}

#[derive(Clone, Debug)]
struct MSub {
  id: usize,
  alive: bool,
  /// id of the probe to subscribe from inside the first callback
  nest: Option<usize>,
  expected: Vec<SEvt>,
}

pub struct Result_ {
  pub verdict: Verdict,
  pub nontrivial: bool,
  pub labels: Vec<&'static str>,
  pub desc: serde_json::Value,
}

pub fn run_history(kind: usize, ops: &[Op]) -> Result_ {
  let log: Log = Arc::new(Mutex::new(vec![]));
  let mut subj = new_subject(kind);
  let mut handles: Vec<Option<Box<dyn SubHandle>>> = vec![];
  let mut model: Vec<MSub> = vec![]; // in subscription order
  let mut handle_owner: Vec<usize> = vec![]; // handle index -> subscriber id
  let mut dead = false; // terminated or unsubscribed
  let mut next_id = 0usize;
  let mut item = 0i64;
  let mut problems: Vec<(String, String)> = vec![];
  let (mut join_leave_between, mut after_dead, mut nested_join, mut emitted) = (false, false, false, false);
  for (k, op) in ops.iter().enumerate() {
    match op {
      Op::Subscribe | Op::SubscribeNesting | Op::SubscribeMany(_) | Op::SubscribeNestingMany(_) => {
        let (count, nesting) = match op {
          Op::Subscribe => (1, false),
          Op::SubscribeNesting => (1, true),
          Op::SubscribeMany(n) => (*n, false),
          Op::SubscribeNestingMany(n) => (*n, true),
          _ => unreachable!(),
        };
        for _ in 0..count {
          if next_id >= 120 {
            break;
          }
          let id = next_id;
          next_id += 1;
          let nest = if nesting {
            let c = next_id;
            next_id += 1;
            Some(c)
          } else {
            None
          };
          handles.push(Some(subj.subscribe(id, nest, &log)));
          handle_owner.push(id);
          model.push(MSub { id, alive: !dead, nest, expected: vec![] });
        }
        if emitted {
          join_leave_between = true;
        }
      }
      Op::UnsubOne(i) => {
        let live: Vec<usize> = handles.iter().enumerate().filter(|(_, h)| h.is_some()).map(|(i, _)| i).collect();
        if live.is_empty() {
          continue;
        }
        let hi = live[*i % live.len()];
        handles[hi].take().unwrap().unsubscribe();
        let owner = handle_owner[hi];
        for m in model.iter_mut().filter(|m| m.id == owner) {
          m.alive = false;
        }
        if emitted {
          join_leave_between = true;
        }
      }
      Op::Next => {
        item += 1;
        if dead {
          after_dead = true;
        }
        emitted = true;
        subj.next(item);
        if !dead {
          let mut joiners = vec![];
          for m in model.iter_mut().filter(|m| m.alive) {
            m.expected.push(SEvt::N(item));
            if let Some(c) = m.nest.take() {
              joiners.push(c); // joins during this emission: does not see it
              nested_join = true;
            }
          }
          for c in joiners {
            model.push(MSub { id: c, alive: true, nest: None, expected: vec![] });
          }
        }
      }
      Op::Error | Op::Complete => {
        if dead {
          after_dead = true;
        }
        let ev = if *op == Op::Error { SEvt::E(7) } else { SEvt::C };
        if *op == Op::Error {
          subj.error(7)
        } else {
          subj.complete()
        }
        if !dead {
          for m in model.iter_mut().filter(|m| m.alive) {
            m.expected.push(ev.clone());
            m.alive = false;
          }
          dead = true;
        }
      }
      Op::Retain => subj.retain(),
      Op::UnsubscribeSubject => {
        subj.unsubscribe_all();
        for m in model.iter_mut() {
          m.alive = false;
        }
        dead = true;
      }
    }
    // invariants after every step
    if subj.is_finished() != dead {
      problems.push(("is_finished".into(), format!("after step {k} ({op:?}): is_finished() == {} but the subject was {}terminated/unsubscribed", subj.is_finished(), if dead { "" } else { "not " })));
      break;
    }
    if dead && !subj.is_empty() {
      problems.push(("is_empty".into(), format!("after step {k} ({op:?}): the subject is terminated/unsubscribed but is_empty() == false (len {})", subj.len())));
      break;
    }
    // traces so far must be prefixes of / equal to the expectation
    let lg = log.lock().unwrap().clone();
    for m in &model {
      let got: Vec<SEvt> = lg.iter().filter(|(id, _)| *id == m.id).map(|(_, e)| e.clone()).collect();
      if got != m.expected {
        let kind = if got.len() > m.expected.len() { "extra" } else if got.len() < m.expected.len() { "missing" } else { "different" };
        problems.push((kind.into(), format!("after step {k} ({op:?}): subscriber {} received {:?}, expected {:?}", m.id, got, m.expected)));
        break;
      }
    }
    if !problems.is_empty() {
      break;
    }
    // nobody unknown to the model may receive anything
    if let Some((id, e)) = lg.iter().find(|(id, _)| !model.iter().any(|m| m.id == *id)) {
      problems.push(("extra".into(), format!("after step {k}: unknown/too-early subscriber {id} received {e:?}")));
      break;
    }
  }
  let kind_name = SUBJECT_KINDS[kind % 5];
  let verdict = match problems.first() {
    None => Verdict::Ok,
    Some((k, d)) => Verdict::Violation { sig: format!("{k}:{kind_name}"), detail: d.clone() },
  };
  let mut labels = vec![kind_name];
  if nested_join {
    labels.push("in-callback-join");
  }
  if after_dead {
    labels.push("emission-after-terminal");
  }
  if join_leave_between {
    labels.push("join-or-leave-between-emissions");
  }
  let desc = json!({
    "subject": kind_name,
    "history": ops.iter().map(|o| format!("{o:?}")).collect::<Vec<_>>(),
    "delivered(subscriber, event)": log.lock().unwrap().iter().map(|(i, e)| format!("{i}:{e:?}")).collect::<Vec<_>>(),
  });
  Result_ { verdict, nontrivial: join_leave_between || after_dead || nested_join, labels, desc }
}

fn finish(kind: usize, ops: Vec<Op>, ctx: &Ctx) -> Outcome {
  let r = guarded(|| run_history(kind, &ops));
  match r {
    Err(m) => Outcome {
      verdict: Verdict::Violation { sig: format!("panic:{}", SUBJECT_KINDS[kind % 5]), detail: m },
      nontrivial: false,
      hash: hash_of(&(kind, &ops)),
      labels: vec!["panic"],
      notes: vec![],
      desc: Some(json!({"subject": SUBJECT_KINDS[kind % 5], "history": ops.iter().map(|o| format!("{o:?}")).collect::<Vec<_>>()})),
    },
    Ok(r) => {
      let want = ctx.want_desc || matches!(r.verdict, Verdict::Violation { .. });
      Outcome { verdict: r.verdict, nontrivial: r.nontrivial, hash: hash_of(&(kind, &ops)), labels: r.labels, notes: vec![], desc: if want { Some(r.desc) } else { None } }
    }
  }
}

fn run_random(c: &mut dyn Choices, ctx: &Ctx) -> Outcome {
  let kind = c.pick(5);
  let n = c.pick(11);
  let mut ops: Vec<Op> = (0..n).map(|_| gen_op(c)).collect();
  // (appended picks, recorded tapes keep their meaning) one history in eight works on a crowded subject:
  // 33..45 subscribers (or in-callback subscribers) up front, and unsubscribes reach into the crowd
  if c.pick(8) == 7 {
    let m = crate::ast::pick_size(c, 33, 13, &[64, 65, 130, 260]);
    let first = if c.pick(3) == 0 { Op::SubscribeNestingMany(m) } else { Op::SubscribeMany(m) };
    for op in ops.iter_mut() {
      if let Op::UnsubOne(_) = op {
        *op = Op::UnsubOne(crate::ast::pick_size(c, 0, 48, &[63, 64, 129, 259]));
      }
    }
    ops.insert(0, first);
  }
  finish(kind, ops, ctx)
}

/// compact alphabet for exhaustive enumeration
fn run_short(c: &mut dyn Choices, ctx: &Ctx) -> Outcome {
  let kind = c.pick(5);
  let n = c.pick(6);
  let ops: Vec<Op> = (0..n)
    .map(|_| match c.pick(8) {
      0 => Op::Subscribe,
      1 => Op::SubscribeNesting,
      2 => Op::UnsubOne(0),
      3 => Op::UnsubOne(1),
      4 => Op::Next,
      5 => Op::Complete,
      6 => Op::Error,
      _ => Op::UnsubscribeSubject,
    })
    .collect();
  finish(kind, ops, ctx)
}


// ------------------------------------------------------------ engine T part

fn run_threads(c: &mut dyn Choices, ctx: &Ctx) -> Outcome {
  use crate::props::c10::{case_json, execute, judge as judge_c10, TCase, TOp};
  use crate::tworld::PEv;
  let n_threads = 2 + c.pick(2);
  let pre_subs = 1 + c.pick(2);
  let scripts: Vec<Vec<TOp>> = (0..n_threads)
    .map(|_| {
      (0..(1 + c.pick(4)))
        .map(|_| match c.pick(15) {
          0..=4 => TOp::Next(0),
          5 => TOp::Complete(0),
          6 => TOp::Error(0),
          7 => TOp::Subscribe,
          8 => TOp::SubscribeNesting,
          9 | 10 => TOp::Unsubscribe(c.pick(3)),
          11 => TOp::Retain,
          12 | 13 => TOp::Size,
          // (added as the last alternative: recorded tapes keep their meaning)
          _ => TOp::UnsubSubject,
        })
        .collect()
    })
    .collect();
  let n = scripts.len();
  let k = c.pick(4);
  let mut preemptions: Vec<(u64, usize)> = (0..k).map(|_| (1 + c.pick(50) as u64, c.pick(n))).collect();
  preemptions.sort();
  preemptions.dedup_by_key(|p| p.0);
  let case = TCase { pipe: 0, pre_subs, scripts, preemptions };
  let o = execute(&case);
  let mut verdict = judge_c10(&case, &o);
  if let Verdict::Ok = verdict {
    verdict = (|| {
      // subscription intervals per probe
      let sub_of = |p: usize| o.calls.iter().find(|c| c.what == "Subscribe" && c.probe == Some(p)).map(|c| (c.begin, c.end));
      let unsub_of = |p: usize| o.calls.iter().find(|c| c.what.starts_with("Unsubscribe") && c.probe == Some(p)).map(|c| (c.begin, c.end));
      // the first event that closes the subject: a terminal, or unsubscribe() on the subject itself
      let term = o.calls.iter().filter(|c| c.what == "Complete(0)" || c.what == "Error(0)" || c.what == "UnsubSubject").map(|c| (c.begin, c.end)).min();
      let mut probes: Vec<usize> = o.pre_probes.clone();
      probes.extend(o.calls.iter().filter_map(|c| if c.what == "Subscribe" { c.probe } else { None }));
      for p in probes {
        let got: Vec<&PEv> = o.deliveries.iter().filter(|(_, q, _)| *q == p).map(|(_, _, e)| e).collect();
        // grammar
        if let Some(pos) = got.iter().position(|e| !matches!(e, PEv::N(_))) {
          if pos + 1 != got.len() {
            return Verdict::Violation { sig: "threads:after-terminal:SubjectThreads".into(), detail: format!("probe {p} received {:?}", got) };
          }
        }
        let sub = if o.pre_probes.contains(&p) { Some((0, 0)) } else { sub_of(p) };
        let Some((sb, se)) = sub else { continue };
        let unsub = unsub_of(p);
        for call in o.calls.iter().filter(|c| c.item.is_some() && c.what == "Next(0)") {
          let v = call.item.unwrap();
          let cnt = got.iter().filter(|e| ***e == PEv::N(v)).count();
          if cnt > 1 {
            return Verdict::Violation { sig: "threads:duplicate:SubjectThreads".into(), detail: format!("probe {p} received item {v} {cnt} times") };
          }
          let must = se < call.begin && unsub.map_or(true, |(ub, _)| ub > call.end) && term.map_or(true, |(tb, _)| tb > call.end);
          let must_not = call.end < sb || unsub.map_or(false, |(_, ue)| ue < call.begin) || term.map_or(false, |(_, te)| te < call.begin);
          if must && cnt != 1 {
            return Verdict::Violation {
              sig: "threads:lost:SubjectThreads".into(),
              detail: format!("probe {p} was subscribed (subscribe returned at t={se}) before next({v}) began (t={}..{}) and neither unsubscribed nor terminated before it ended, but did not receive it", call.begin, call.end),
            };
          }
          if must_not && cnt != 0 {
            return Verdict::Violation { sig: "threads:unexpected:SubjectThreads".into(), detail: format!("probe {p} received item {v} although it was not subscribed during next({v}) (t={}..{})", call.begin, call.end) };
          }
        }
        // per-producer order
        for t in 0..n {
          let mine: Vec<i64> = got.iter().filter_map(|e| if let PEv::N(v) = e { Some(*v) } else { None }).filter(|v| *v / 100 == t as i64 + 1).collect();
          let mut sorted = mine.clone();
          sorted.sort();
          if sorted != mine {
            return Verdict::Violation { sig: "threads:producer-order:SubjectThreads".into(), detail: format!("probe {p} received the items of thread {t} as {:?}", mine) };
          }
        }
      }
      Verdict::Ok
    })();
  }
  let desc = if ctx.want_desc || matches!(verdict, Verdict::Violation { .. }) {
    let mut j = case_json(&case, Some(&o));
    j["calls(thread, op, begin..end)"] = json!(o.calls.iter().map(|c| format!("t{} {} {}..{}", c.tid, c.what, c.begin, c.end)).collect::<Vec<_>>());
    j["deliveries(time, probe, event)"] = json!(o.deliveries.iter().map(|(t, p, e)| format!("{t}: {p} {e:?}")).collect::<Vec<_>>());
    Some(j)
  } else {
    None
  };
  let mut labels = vec!["part:threads"];
  if o.stats.preempted_inside_call > 0 {
    labels.push("preempted-inside-call");
  }
  Outcome { verdict, nontrivial: o.stats.preempted_inside_call > 0, hash: hash_of(&case), labels, notes: vec![], desc }
}
