//! C06 — subjects deliver each item once, in order, to exactly the current subscribers.
//! Engine S: model-based testing over API histories (random + bounded-exhaustive).
use crate::choice::{Choices, ChoicesExt};
use crate::run::*;
use crate::subj::*;
use serde_json::json;
use std::sync::{Arc, Mutex};

pub fn prop() -> Prop {
  Prop {
    id: "C06",
    rule: "case = (subject type in Subject / SubjectThreads / MutRefItemSubject / MutRefErrSubject / MutRefItemErrSubject; history of <= 10 operations over <= 4 subscribers: subscribe, subscribe a probe that subscribes a further probe to a clone of the subject from inside its first callback, unsubscribe one subscription, next (numbered items), error, complete, retain, unsubscribe the subject; every operation goes through a fresh clone of the subject). \
           Oracle (model = ordered list of live subscribers): every subscriber's trace equals the items sent while it was subscribed (joined before the emission began, not yet unsubscribed), each exactly once and in order, then the subject's terminal once; the in-callback subscriber does not see the in-flight item and sees every later one; after a terminal or unsubscribe() nothing is delivered to anybody and is_finished() and is_empty() are true; before that is_finished() is false. Non-trivial: a join or leave between two emissions, or an emission after a terminal/unsubscribe, or an in-callback join. Distinct by hash(case). Part `short` enumerates every history of length <= 5 for every subject type (thorough tier).",
    assumptions: &[
      "len() of a live subject is not constrained by the statement and is not checked",
      "a subscriber that joins after the subject terminated must receive nothing (it may or may not be told about the terminal: not checked)",
      "thread interleavings on SubjectThreads are the engine-T part's job",
    ],
    parts: vec![
      Part { name: "histories", run: run_random, tape_len: 48, quick_cases: 1_000_000, thorough_cases: 20_000_000, exhaustive_depth: None, exhaustive_budget: 0, exh_quick: false },
      Part { name: "short", run: run_short, tape_len: 16, quick_cases: 0, thorough_cases: 0, exhaustive_depth: Some(12), exhaustive_budget: 40_000_000, exh_quick: false },
    ],
  }
}

#[derive(Clone, Debug, Hash, PartialEq, Eq)]
pub enum Op {
  Subscribe,
  SubscribeNesting,
  UnsubOne(usize),
  Next,
  Error,
  Complete,
  Retain,
  UnsubscribeSubject,
}

fn gen_op(c: &mut dyn Choices) -> Op {
  match c.pick(12) {
    0 | 1 => Op::Subscribe,
    2 => Op::SubscribeNesting,
    3 | 4 => Op::UnsubOne(c.pick(4)),
    5..=8 => Op::Next,
    9 => {
      if c.flag() {
        Op::Error
      } else {
        Op::Complete
      }
    }
    10 => Op::Retain,
    _ => Op::UnsubscribeSubject,
  }
}

#[derive(Clone, Debug)]
struct MSub {
  id: usize,
  alive: bool,
  /// id of the probe to subscribe from inside the first callback
  nest: Option<usize>,
  expected: Vec<SEvt>,
}

pub struct Result_ {
  pub verdict: Verdict,
  pub nontrivial: bool,
  pub labels: Vec<&'static str>,
  pub desc: serde_json::Value,
}

pub fn run_history(kind: usize, ops: &[Op]) -> Result_ {
  let log: Log = Arc::new(Mutex::new(vec![]));
  let mut subj = new_subject(kind);
  let mut handles: Vec<Option<Box<dyn SubHandle>>> = vec![];
  let mut model: Vec<MSub> = vec![]; // in subscription order
  let mut handle_owner: Vec<usize> = vec![]; // handle index -> subscriber id
  let mut dead = false; // terminated or unsubscribed
  let mut next_id = 0usize;
  let mut item = 0i64;
  let mut problems: Vec<(String, String)> = vec![];
  let (mut join_leave_between, mut after_dead, mut nested_join, mut emitted) = (false, false, false, false);
  for (k, op) in ops.iter().enumerate() {
    match op {
      Op::Subscribe | Op::SubscribeNesting => {
        if next_id >= 6 {
          continue;
        }
        let id = next_id;
        next_id += 1;
        let nest = if *op == Op::SubscribeNesting {
          let c = next_id;
          next_id += 1;
          Some(c)
        } else {
          None
        };
        handles.push(Some(subj.subscribe(id, nest, &log)));
        handle_owner.push(id);
        model.push(MSub { id, alive: !dead, nest, expected: vec![] });
        if emitted {
          join_leave_between = true;
        }
      }
      Op::UnsubOne(i) => {
        let live: Vec<usize> = handles.iter().enumerate().filter(|(_, h)| h.is_some()).map(|(i, _)| i).collect();
        if live.is_empty() {
          continue;
        }
        let hi = live[*i % live.len()];
        handles[hi].take().unwrap().unsubscribe();
        let owner = handle_owner[hi];
        for m in model.iter_mut().filter(|m| m.id == owner) {
          m.alive = false;
        }
        if emitted {
          join_leave_between = true;
        }
      }
      Op::Next => {
        item += 1;
        if dead {
          after_dead = true;
        }
        emitted = true;
        subj.next(item);
        if !dead {
          let mut joiners = vec![];
          for m in model.iter_mut().filter(|m| m.alive) {
            m.expected.push(SEvt::N(item));
            if let Some(c) = m.nest.take() {
              joiners.push(c); // joins during this emission: does not see it
              nested_join = true;
            }
          }
          for c in joiners {
            model.push(MSub { id: c, alive: true, nest: None, expected: vec![] });
          }
        }
      }
      Op::Error | Op::Complete => {
        if dead {
          after_dead = true;
        }
        let ev = if *op == Op::Error { SEvt::E(7) } else { SEvt::C };
        if *op == Op::Error {
          subj.error(7)
        } else {
          subj.complete()
        }
        if !dead {
          for m in model.iter_mut().filter(|m| m.alive) {
            m.expected.push(ev.clone());
            m.alive = false;
          }
          dead = true;
        }
      }
      Op::Retain => subj.retain(),
      Op::UnsubscribeSubject => {
        subj.unsubscribe_all();
        for m in model.iter_mut() {
          m.alive = false;
        }
        dead = true;
      }
    }
    // invariants after every step
    if subj.is_finished() != dead {
      problems.push(("is_finished".into(), format!("after step {k} ({op:?}): is_finished() == {} but the subject was {}terminated/unsubscribed", subj.is_finished(), if dead { "" } else { "not " })));
      break;
    }
    if dead && !subj.is_empty() {
      problems.push(("is_empty".into(), format!("after step {k} ({op:?}): the subject is terminated/unsubscribed but is_empty() == false (len {})", subj.len())));
      break;
    }
    // traces so far must be prefixes of / equal to the expectation
    let lg = log.lock().unwrap().clone();
    for m in &model {
      let got: Vec<SEvt> = lg.iter().filter(|(id, _)| *id == m.id).map(|(_, e)| e.clone()).collect();
      if got != m.expected {
        let kind = if got.len() > m.expected.len() { "extra" } else if got.len() < m.expected.len() { "missing" } else { "different" };
        problems.push((kind.into(), format!("after step {k} ({op:?}): subscriber {} received {:?}, expected {:?}", m.id, got, m.expected)));
        break;
      }
    }
    if !problems.is_empty() {
      break;
    }
    // nobody unknown to the model may receive anything
    if let Some((id, e)) = lg.iter().find(|(id, _)| !model.iter().any(|m| m.id == *id)) {
      problems.push(("extra".into(), format!("after step {k}: unknown/too-early subscriber {id} received {e:?}")));
      break;
    }
  }
  let kind_name = SUBJECT_KINDS[kind % 5];
  let verdict = match problems.first() {
    None => Verdict::Ok,
    Some((k, d)) => Verdict::Violation { sig: format!("{k}:{kind_name}"), detail: d.clone() },
  };
  let mut labels = vec![kind_name];
  if nested_join {
    labels.push("in-callback-join");
  }
  if after_dead {
    labels.push("emission-after-terminal");
  }
  if join_leave_between {
    labels.push("join-or-leave-between-emissions");
  }
  let desc = json!({
    "subject": kind_name,
    "history": ops.iter().map(|o| format!("{o:?}")).collect::<Vec<_>>(),
    "delivered(subscriber, event)": log.lock().unwrap().iter().map(|(i, e)| format!("{i}:{e:?}")).collect::<Vec<_>>(),
  });
  Result_ { verdict, nontrivial: join_leave_between || after_dead || nested_join, labels, desc }
}

fn finish(kind: usize, ops: Vec<Op>, ctx: &Ctx) -> Outcome {
  let r = guarded(|| run_history(kind, &ops));
  match r {
    Err(m) => Outcome {
      verdict: Verdict::Violation { sig: format!("panic:{}", SUBJECT_KINDS[kind % 5]), detail: m },
      nontrivial: false,
      hash: hash_of(&(kind, &ops)),
      labels: vec!["panic"],
      notes: vec![],
      desc: Some(json!({"subject": SUBJECT_KINDS[kind % 5], "history": ops.iter().map(|o| format!("{o:?}")).collect::<Vec<_>>()})),
    },
    Ok(r) => {
      let want = ctx.want_desc || matches!(r.verdict, Verdict::Violation { .. });
      Outcome { verdict: r.verdict, nontrivial: r.nontrivial, hash: hash_of(&(kind, &ops)), labels: r.labels, notes: vec![], desc: if want { Some(r.desc) } else { None } }
    }
  }
}

fn run_random(c: &mut dyn Choices, ctx: &Ctx) -> Outcome {
  let kind = c.pick(5);
  let n = c.pick(11);
  let ops: Vec<Op> = (0..n).map(|_| gen_op(c)).collect();
  finish(kind, ops, ctx)
}

/// compact alphabet for exhaustive enumeration
fn run_short(c: &mut dyn Choices, ctx: &Ctx) -> Outcome {
  let kind = c.pick(5);
  let n = c.pick(6);
  let ops: Vec<Op> = (0..n)
    .map(|_| match c.pick(8) {
      0 => Op::Subscribe,
      1 => Op::SubscribeNesting,
      2 => Op::UnsubOne(0),
      3 => Op::UnsubOne(1),
      4 => Op::Next,
      5 => Op::Complete,
      6 => Op::Error,
      _ => Op::UnsubscribeSubject,
    })
    .collect();
  finish(kind, ops, ctx)
}
