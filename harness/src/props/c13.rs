//! C13 — cold pipelines are lazy and every subscription is independent.
//! Oracle: counters are zero after building; per subscription the source closure
//! ran exactly once; every subscription (successive and nested) delivers the
//! reference interpreter's sequence.
use crate::ast::*;
use crate::choice::{Choices, ChoicesExt};
use crate::model::{self, Inputs, Opts};
use crate::run::*;
use crate::value::*;
use serde_json::json;

pub fn prop() -> Prop {
  Prop {
    id: "C13",
    rule: "case = (cold source: of / of_option / of_result / of_fn / start / from_iter / repeat / empty / never / throw / create script / defer(source) / from_future / from_future_result (poll-counting ready future, value or error); chain of 1..5 cloneable C03 operators whose closures count their calls; built once as CloneableBoxOp (or CloneableBoxOpThreads); 2..3 clones subscribed successively, optionally a further clone subscribed from inside the first subscription's first callback; one case in eight at scale: 20..79 successive subscriptions and / or a cold input of 100..600 items). \
           Oracle: after building, every counter (source closures, defer factories, future polls, map/filter/scan/tap closures) is 0; after k subscriptions the source closure / factory ran exactly k times and the future was polled k times; every subscription's notification sequence equals the reference interpreter's. Non-trivial: the chain contains an operator that keeps state (take, skip, last, scan, distinct, buffer, pairwise, default_if_empty, ...) and the source emits >= 1 item. Distinct by hash(case). \
           Part `overlap`: pipelines of depth <= 4 over every operator that has a cloneable form (the C03 catalogue, finalize, box_it, observe_on, delay, delay_subscription, subscribe_on, debounce, throttle, buffer_with_time, buffer_with_count_and_time, the eight two-input combinators) on cold sources and virtual-clock intervals, built once; 2..3 clones are subscribed at generated, overlapping virtual times and each is unsubscribed 12 ticks after its own start. Oracle (metamorphic, no model): every subscription's trace, with times relative to its own start, equals the trace of a single subscription of the same pipeline run alone in a fresh world; finalize callbacks ran once per subscription and finalize node. Non-trivial (overlap): two subscriptions are alive at the same time and the pipeline uses the scheduler or a stateful operator.",
    assumptions: &["the nested subscription is made on a *clone* of the pipeline (the form of re-entrancy the property names)"],
    parts: vec![
      Part { name: "cold-chains", run: run_case, tape_len: 64, quick_cases: 600_000, thorough_cases: 12_000_000, exhaustive_depth: None, exhaustive_budget: 0, exh_quick: false },
      Part { name: "overlap", run: run_overlap, tape_len: 96, quick_cases: 400_000, thorough_cases: 8_000_000, exhaustive_depth: None, exhaustive_budget: 0, exh_quick: false },
    ],
  }
}

#[derive(Clone, Debug, Hash)]
struct Case {
  node: Node,
  subs: usize,
  nested: bool,
  threads: bool,
}

fn gen_src(c: &mut dyn Choices) -> Src {
  match c.pick(9) {
    0 => Src::Defer(Box::new(Node::Src(gen_cold_src(c, 4, 4)))),
    1 => Src::FutureReady(gen_v(c, 4)),
    2 => Src::OfFn(gen_v(c, 4)),
    3 => Src::Start(gen_v(c, 4)),
    4 => Src::Create(gen_create_script(c, 5, 4, true)),
    5 | 6 | 7 => gen_cold_src(c, 5, 4),
    // (new alternative at the high end of the pick: recorded tapes keep their meaning)
    _ => Src::FutureResultReady(if c.pick(3) == 0 { Err(gen_e(c)) } else { Ok(gen_v(c, 4)) }),
  }
}

fn replace_chain_src(n: &Node, src: Src) -> Node {
  match n {
    Node::Un(op, tf, inner) => Node::Un(op.clone(), *tf, Box::new(replace_chain_src(inner, src))),
    _ => Node::Src(src),
  }
}

fn counted_sources(n: &Node) -> (usize, usize) {
  // (closure/factory calls per subscription, future polls per subscription)
  let (mut calls, mut polls) = (0, 0);
  n.visit(&mut |n| {
    if let Node::Src(s) = n {
      match s {
        Src::OfFn(_) | Src::Start(_) | Src::Create(_) | Src::Defer(_) => calls += 1,
        Src::FutureReady(_) | Src::FutureResultReady(_) => polls += 1,
        _ => {}
      }
    }
  });
  (calls, polls)
}

fn run_case(c: &mut dyn Choices, ctx: &Ctx) -> Outcome {
  let mut node = Node::Src(gen_src(c));
  let depth = 1 + c.pick(5);
  for _ in 0..depth {
    node = Node::un(gen_un_c03(c, 3, 4), node);
  }
  let mut case = Case { node, subs: 2 + c.pick(2), nested: c.pick(3) == 0, threads: c.pick(3) == 0 };
  // (appended picks, recorded tapes keep their meaning) one case in eight at scale: many subscriptions of clones
  // (20..79) and / or a long cold input (100..600 items over {0..3} or {0..999}, then complete / error / nothing)
  if c.pick(8) == 7 {
    let which = c.pick(3);
    if which != 1 {
      case.subs = 20 + c.pick(60);
    }
    if which != 0 {
      let n = crate::ast::pick_size(c, 100, 200, &[330, 520, 600]);
      let alpha = if c.flag() { 4 } else { 1000 };
      let items = gen_long_items(c, n, alpha);
      let term = match c.pick(3) {
        0 => Some(Ev::C),
        1 => Some(Ev::Er(E(1))),
        _ => None,
      };
      let src = if term == Some(Ev::C) && c.flag() {
        Src::FromIter(items)
      } else {
        let mut evs: Vec<(u8, Ev)> = items.into_iter().map(|v| (0u8, Ev::N(v))).collect();
        if let Some(t) = term {
          evs.push((1, t));
        }
        Src::Create(evs)
      };
      case.node = replace_chain_src(&case.node, src);
    }
  }
  let inputs = Inputs::default();
  let expected: Vec<Vec<Ev>> = {
    let mut v = vec![];
    for o in [Opts::default(), Opts { skip_last_lazy: true, ..Opts::default() }, Opts { take0_immediate: true, ..Opts::default() }, Opts { skip_last_lazy: true, take0_immediate: true, ..Opts::default() }, Opts { take0_at_first_item: true, ..Opts::default() }, Opts { skip_last_lazy: true, take0_at_first_item: true, ..Opts::default() }] {
      if let Some(t) = model::eval(&case.node, &inputs, o) {
        let e = model::strip(&t);
        if !v.contains(&e) {
          v.push(e);
        }
      }
    }
    v
  };
  if expected.is_empty() {
    return Outcome::discard();
  }
  let res = guarded_strict(|| if case.threads { crate::threads::exec_cold(&case.node, case.subs, case.nested).map(|r| (r.counters_after_build, r.counters_end, r.traces, r.nested)) } else { crate::local::exec_cold(&case.node, case.subs, case.nested).map(|r| (r.counters_after_build, r.counters_end, r.traces, r.nested)) });
  let mut stateful = false;
  case.node.visit(&mut |n| {
    if let Node::Un(op, ..) = n {
      if !matches!(op, Un::Map(_) | Un::MapTo(_) | Un::Filter(_) | Un::FilterMap | Un::Tap | Un::IgnoreElements | Un::OnErrorMap(_) | Un::StartWith(_)) {
        stateful = true
      }
    }
  });
  let emits = expected[0].iter().any(|e| !e.is_terminal());
  let mut labels: Vec<&'static str> = vec![];
  if case.nested {
    labels.push("nested-subscription");
  }
  if case.threads {
    labels.push("build:threads");
  }
  let names = crate::props::c03::chain_names(&case.node).join(">");
  let verdict = match &res {
    Err(m) => Verdict::Violation { sig: format!("panic:{names}"), detail: m.clone() },
    Ok(None) => return Outcome::discard(),
    Ok(Some((after_build, end, traces, nested))) => {
      let (calls, polls) = counted_sources(&case.node);
      let total_subs = case.subs + if nested.as_ref().map_or(false, |_| traces[0].iter().any(|e| !e.is_terminal())) { 1 } else { 0 };
      if *after_build != crate::common::Counters::default() {
        Verdict::Violation { sig: format!("eager:{names}"), detail: format!("work was done while building the pipeline: {after_build:?}") }
      } else if end.src_calls != calls * total_subs || end.fut_polls != polls * total_subs {
        Verdict::Violation {
          sig: format!("source-calls:{names}"),
          detail: format!("{} subscriptions: source closures ran {} times (expected {}), future polled {} times (expected {})", total_subs, end.src_calls, calls * total_subs, end.fut_polls, polls * total_subs),
        }
      } else {
        let mut bad = None;
        for (i, t) in traces.iter().enumerate() {
          if !expected.contains(t) {
            bad = Some(format!("subscription #{i} delivered [{}], expected [{}]", evs_short(t), evs_short(&expected[0])));
            break;
          }
        }
        if bad.is_none() {
          if let Some(nt) = nested {
            if traces[0].iter().any(|e| !e.is_terminal()) && !expected.contains(nt) {
              bad = Some(format!("nested subscription delivered [{}], expected [{}]", evs_short(nt), evs_short(&expected[0])));
            }
          }
        }
        match bad {
          None => Verdict::Ok,
          Some(d) => Verdict::Violation { sig: format!("shared-state:{names}"), detail: d },
        }
      }
    }
  };
  let desc = if ctx.want_desc || matches!(verdict, Verdict::Violation { .. }) {
    Some(json!({
      "pipeline": case.node.short(), "subscriptions": case.subs, "nested": case.nested, "build": if case.threads {"CloneableBoxOpThreads"} else {"CloneableBoxOp"},
      "expected": evs_short(&expected[0]),
      "delivered": match &res { Ok(Some((_,_,t,n))) => json!({"successive": t.iter().map(|x| evs_short(x)).collect::<Vec<_>>(), "nested": n.as_ref().map(|x| evs_short(x))}), Ok(None) => json!(null), Err(m) => json!({"panic": m}) },
    }))
  } else {
    None
  };
  Outcome { verdict, nontrivial: stateful && emits, hash: hash_of(&case), labels, notes: vec![], desc }
}


// ------------------------------------------------------------ overlap ------

fn gen_clone_un(c: &mut dyn Choices) -> Un {
  match c.pick(14) {
    0 => Un::Finalize,
    1 => Un::BoxIt,
    2 => Un::ObserveOn,
    3 => Un::Delay(c.pick(4) as u64),
    4 => Un::DelaySubscription(c.pick(3) as u64),
    5 => Un::SubscribeOn,
    6 => Un::Debounce(1 + c.pick(3) as u64),
    7 => Un::Throttle(gen_edge(c)),
    8 => Un::BufferWithTime(1 + c.pick(3) as u64),
    9 => Un::BufferWithCountAndTime(1 + c.pick(3), 1 + c.pick(3) as u64),
    _ => gen_un_c03(c, 3, 4),
  }
}

fn gen_clone_node(c: &mut dyn Choices, depth: usize) -> Node {
  if depth == 0 || c.pick(6) == 0 {
    return Node::Src(match c.pick(5) {
      0 | 1 => Src::Interval(1 + c.pick(3) as u64),
      2 => Src::Defer(Box::new(Node::Src(Src::Interval(1 + c.pick(3) as u64)))),
      _ => gen_src(c),
    });
  }
  if c.pick(4) == 0 {
    let a = gen_clone_node(c, depth - 1);
    let b = gen_clone_node(c, depth - 1);
    Node::Bin(gen_bin(c), c.pick(3) == 0, Box::new(a), Box::new(b))
  } else {
    let inner = gen_clone_node(c, depth - 1);
    Node::Un(gen_clone_un(c), c.pick(3) == 0, Box::new(inner))
  }
}

fn fmt_rel(t: &[(u64, Ev)]) -> String {
  t.iter().map(|(vt, e)| format!("{}@+{}", ev_short(e), vt)).collect::<Vec<_>>().join(" ")
}

fn run_overlap(c: &mut dyn Choices, ctx: &Ctx) -> Outcome {
  const HORIZON: u64 = 12;
  let depth = 1 + c.pick(4);
  let node = gen_clone_node(c, depth);
  let n = 2 + c.pick(2);
  let mut starts: Vec<u64> = vec![0];
  for _ in 1..n {
    let last = *starts.last().unwrap();
    starts.push(last + c.pick(8) as u64);
  }
  let threads = c.pick(3) == 0;
  let run = |starts: &[u64]| {
    guarded_strict(|| if threads { crate::threads::exec_overlap(&node, starts, HORIZON) } else { crate::local::exec_overlap(&node, starts, HORIZON) })
  };
  let alone = run(&[0]);
  let shared = run(&starts);
  let mut n_finalize = 0usize;
  let mut stateful = node.uses_scheduler();
  node.visit(&mut |x| match x {
    Node::Un(Un::Finalize, ..) => n_finalize += 1,
    Node::Un(op, ..) => {
      if !matches!(op, Un::Map(_) | Un::MapTo(_) | Un::Filter(_) | Un::FilterMap | Un::Tap | Un::IgnoreElements | Un::OnErrorMap(_) | Un::BoxIt) {
        stateful = true
      }
    }
    Node::Bin(..) => stateful = true,
    _ => {}
  });
  let overlapping = starts.windows(2).any(|w| w[1] < w[0] + HORIZON);
  let mut labels: Vec<&'static str> = vec!["part:overlap"];
  if threads {
    labels.push("build:threads");
  }
  if node.uses_scheduler() {
    labels.push("uses-scheduler");
  }
  let names = crate::props::c01::op_names(&node);
  let verdict = match (&alone, &shared) {
    (Ok(None), _) | (_, Ok(None)) => return Outcome::discard(),
    (Err(_), Err(_)) => {
      labels.push("panic-both");
      Verdict::Ok
    }
    (Err(m), _) | (_, Err(m)) => Verdict::Violation { sig: format!("panic:{names}"), detail: m.clone() },
    (Ok(Some((ta, ca))), Ok(Some((ts, cs)))) => {
      let reference = &ta[0];
      let mut v = Verdict::Ok;
      for (i, t) in ts.iter().enumerate() {
        if t != reference {
          v = Verdict::Violation {
            sig: format!("not-independent:{names}"),
            detail: format!("subscription #{i} (started at t={}) delivered [{}] but a subscription run alone delivers [{}]", starts[i], fmt_rel(t), fmt_rel(reference)),
          };
          break;
        }
      }
      if matches!(v, Verdict::Ok) && (ca.finalize_calls != n_finalize || cs.finalize_calls != n_finalize * starts.len()) {
        v = Verdict::Violation {
          sig: format!("finalize-count:{names}"),
          detail: format!("{} finalize operator(s): alone {} callback run(s), {} overlapping subscriptions {} run(s) (expected {})", n_finalize, ca.finalize_calls, starts.len(), cs.finalize_calls, n_finalize * starts.len()),
        };
      }
      v
    }
  };
  let desc = if ctx.want_desc || matches!(verdict, Verdict::Violation { .. }) {
    Some(json!({
      "pipeline": node.short(), "subscription_starts": starts, "each_unsubscribed_after": HORIZON, "build": if threads {"CloneableBoxOpThreads"} else {"CloneableBoxOp"},
      "alone": alone.as_ref().map(|r| json!(r.as_ref().map(|(t, _)| fmt_rel(&t[0])))).unwrap_or_else(|m| json!({"panic": m})),
      "overlapping": shared.as_ref().map(|r| json!(r.as_ref().map(|(t, _)| t.iter().map(|x| fmt_rel(x)).collect::<Vec<_>>()))).unwrap_or_else(|m| json!({"panic": m})),
    }))
  } else {
    None
  };
  Outcome { verdict, nontrivial: overlapping && stateful, hash: hash_of(&(&node, &starts, threads)), labels, notes: vec![], desc }
}
