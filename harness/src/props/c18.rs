//! C18 — local and thread-safe variants are observationally equivalent.
//! Oracle: metamorphic/differential — the same case built from local types and
//! from the `_threads` / `Threads` types delivers identical notification sequences.
use crate::ast::*;
use crate::choice::Choices;
use crate::common::*;
use crate::props::c01::{gen_pcase, maybe_lengthen, op_names, pcase_json, script_profile};
use crate::run::*;
use serde_json::json;

pub fn prop() -> Prop {
  Prop {
    id: "C18",
    rule: "case = the C01 pipeline/script generator (depth <= 4, whole catalogue incl. scheduler operators on the virtual scheduler, every scheduler mode); each case is built twice: (L) Subject/Subscriber/BoxOp/MutRc forms with every per-node _threads flag off, (T) SubjectThreads/SubscriberThreads/BoxOpThreads and every _threads operator form; both run the same script with the same scheduler choices on one thread. \
           Oracle: identical (step, virtual time, notification) lists, identical is_closed() samples and finalize counts after every step (a quarter of the cases contain an unsubscribe() / guard drop at a generated position); a panic in exactly one build is a difference. Non-trivial: the AST contains >= 1 operator that has two forms and >= 2 notifications were delivered. Distinct by hash(case).",
    assumptions: &["both builds use the same virtual scheduler and clock; callbacks do not re-enter"],
    parts: vec![Part { name: "pairs", run: run_case, tape_len: 160, quick_cases: 1_500_000, thorough_cases: 30_000_000, exhaustive_depth: None, exhaustive_budget: 0, exh_quick: false }],
  }
}

fn two_forms(n: &Node) -> bool {
  let mut r = false;
  n.visit(&mut |n| match n {
    Node::Bin(op, ..) => {
      if *op != Bin::Buffer {
        r = true
      }
    }
    Node::Flat(..) => r = true,
    Node::Un(op, ..) => {
      if matches!(op, Un::Delay(_) | Un::ObserveOn | Un::Finalize | Un::Share | Un::GroupByFlatten(_) | Un::BoxIt) {
        r = true
      }
    }
    Node::Src(s) => {
      if matches!(s, Src::Hot(_) | Src::HotCreate(_) | Src::Behavior(..) | Src::Create(_)) {
        r = true
      }
    }
  });
  r
}

fn run_case(c: &mut dyn Choices, ctx: &Ctx) -> Outcome {
  let mut base = gen_pcase(c, 4, true);
  maybe_lengthen(c, &mut base);
  // (appended picks) a quarter of the cases unsubscribe at a generated position of the script: both forms must tear
  // down alike (finalize callbacks, is_closed(), nothing afterwards)
  if c.pick(4) == 3 {
    let pos = c.pick(base.script.len() + 1);
    base.script.insert(pos, if c.pick(4) == 0 { Step::DropGuard } else { Step::Unsub });
  }
  let l = PCase { node: base.node.with_flags(false), threads: false, ..base.clone() };
  let t = PCase { node: base.node.with_flags(true), threads: true, ..base.clone() };
  let rl = run_pcase(&l, true);
  let rt = run_pcase(&t, true);
  let (_, mut labels) = script_profile(&base, rl.as_ref().ok());
  let delivered = rl.as_ref().map(|t| t.recs.len()).unwrap_or(0);
  let nt = two_forms(&base.node) && delivered >= 2;
  let mut notes: Vec<String> = vec![];
  let verdict = match (&rl, &rt) {
    (Ok(a), Ok(b)) => {
      if a.recs == b.recs && a.closed == b.closed && a.counters.finalize_calls == b.counters.finalize_calls && a.finalize_after_step == b.finalize_after_step {
        Verdict::Ok
      } else {
        let kind = if a.recs != b.recs {
          "trace"
        } else if a.closed != b.closed {
          "is_closed"
        } else {
          "finalize"
        };
        Verdict::Violation {
          sig: format!("{kind}:{}", op_names(&base.node)),
          detail: format!("local: {} | threads: {} | closed local {:?} threads {:?} | finalize runs after each step local {:?} threads {:?}", a.short(), b.short(), a.closed, b.closed, a.finalize_after_step, b.finalize_after_step),
        }
      }
    }
    (Err(m), Err(_)) => {
      notes.push(format!("panic-both: {}", crate::run::panic_class(m)));
      labels.push("panic-both");
      Verdict::Ok
    }
    (Err(m), Ok(b)) => Verdict::Violation { sig: format!("panic-local-only:{}", op_names(&base.node)), detail: format!("local build panicked ({m}); threads delivered {}", b.short()) },
    (Ok(a), Err(m)) => Verdict::Violation { sig: format!("panic-threads-only:{}", op_names(&base.node)), detail: format!("threads build panicked ({m}); local delivered {}", a.short()) },
  };
  let desc = if ctx.want_desc || matches!(verdict, Verdict::Violation { .. }) {
    let mut j = pcase_json(&base);
    j["local"] = rl.as_ref().map(|t| json!(t.short())).unwrap_or_else(|m| json!({ "panic": m }));
    j["threads"] = rt.as_ref().map(|t| json!(t.short())).unwrap_or_else(|m| json!({ "panic": m }));
    Some(j)
  } else {
    None
  };
  Outcome { verdict, nontrivial: nt, hash: hash_of(&base), labels, notes, desc }
}
