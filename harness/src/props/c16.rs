//! C16 — ending a stream early retires the producers that feed it.
use crate::ast::*;
use crate::choice::{Choices, ChoicesExt};
use crate::common::*;
use crate::props::c01::pcase_json;
use crate::run::*;
use crate::value::*;
use serde_json::json;

pub fn prop() -> Prop {
  Prop {
    id: "C16",
    rule: "case = (producer: interval(p) on the virtual scheduler, from_iter over a counting iterator of 40 items, from_stream / from_stream_result over a counting stream of 40 ready items (gated shape also: over a stream that is never ready - every poll answers Pending and nothing wakes the task; there the stream has ended before the task first runs, and the task must retire without polling); 0..3 intermediate operators that do not end the stream themselves (take(30+), take_while(true), skip_last, map, filter, tap, scan, skip, skip_while, start_with, distinct_until_changed, pairwise, buffer_with_count, finalize, box_it, on_complete, default_if_empty, on_error_map, complete_status, and the timer-owning buffer_with_time, buffer_with_count_and_time, debounce, throttle_time); an early-terminating operator: take(n>=1), first, element_at, take_while, contains, all, take_until(hot notifier); the producer chain either is the main input of the cutter or sits in the second (notifier/other) position of merge / zip / combine_latest / with_latest_from / sample / buffer / skip_until / take_until whose main input is a scripted hot input, with the cutter on top; local and thread-safe builds; script of <= 10 emissions / clock advances; one case in eight ends the stream late: producers of 160 items, take / element_at / take_while at 33..120, clock advances of 20..80 ticks; one case in five: the producer chain is the MAIN input of merge / zip / combine_latest / with_latest_from / sample / buffer / skip_until / take_until whose second input is a scripted hot subject (a gate that may stay silent), and the stream is ended by something else downstream - take_until(second hot subject), or take(k) over a merge with a cold sibling of k items that fills it at subscription). \
           Oracle (applied when the subscriber received its terminal): running the scheduler until idle terminates - after at most (number of periodic producers) further timer firings no timer is pending and no scheduled task is alive; a counting iterator is asked for at most one more item after the terminal; a counting stream is polled at most once more. Non-trivial: the terminal was caused by the cutter (not by the producer running out) and there is >= 1 intermediate operator or the producer is in notifier position. Distinct by hash(case).",
    assumptions: &["iterators and streams are bounded (40 items) so that a producer that is not stopped shows up as extra pulls, not as a hang"],
    parts: vec![Part { name: "producers", run: run_case, tape_len: 64, quick_cases: 600_000, thorough_cases: 12_000_000, exhaustive_depth: None, exhaustive_budget: 0, exh_quick: false }],
  }
}

#[derive(Clone, Debug, Hash)]
struct Case {
  producer: Src,
  notifier_pos: Option<Bin>,
  n_mid: usize,
  pcase: PCase,
  /// length of one tick in ns
  unit: u64,
}

fn gen_mid(c: &mut dyn Choices) -> Un {
  match c.pick(24) {
    // (added as the last alternatives: recorded tapes keep their meaning) operators that own a timer of their own: it has
    // to retire as well once the stream has ended downstream, or the scheduler never becomes idle
    20 => Un::BufferWithTime(1 + c.pick(3) as u64),
    21 => Un::BufferWithCountAndTime(1 + c.pick(3), 1 + c.pick(3) as u64),
    22 => Un::Debounce(1 + c.pick(2) as u64),
    23 => Un::ThrottleTime(1 + c.pick(2) as u64, gen_edge(c)),
    // early-terminating operators that will not trigger themselves but must pass the
    // downstream "finished" state on to the producer
    16 => Un::Take(30 + c.pick(10)),
    17 => Un::TakeWhile(Pred::Const(true)),
    18 => Un::TakeWhileInclusive(Pred::Const(true)),
    19 => Un::SkipLast(1),
    0 => Un::Map(gen_mapf(c)),
    1 => Un::Filter(*c.one_of(&[Pred::Const(true), Pred::Even, Pred::Mod3])),
    2 => Un::Tap,
    3 => Un::Scan(gen_fold(c), V::I(0)),
    4 => Un::Skip(c.pick(3)),
    5 => Un::SkipWhile(Pred::Lt(2)),
    6 => Un::StartWith(vec![V::I(9)]),
    7 => Un::DistinctUntilChanged,
    8 => Un::Pairwise,
    9 => Un::BufferWithCount(1 + c.pick(2)),
    10 => Un::Finalize,
    11 => Un::BoxIt,
    12 => Un::OnComplete,
    13 => Un::DefaultIfEmpty(V::I(0)),
    14 => Un::OnErrorMap(1),
    _ => Un::CompleteStatus,
  }
}

fn gen_cutter(c: &mut dyn Choices) -> Un {
  match c.pick(6) {
    0 => Un::Take(1 + c.pick(3)),
    1 => Un::First,
    2 => Un::ElementAt(c.pick(3)),
    3 => Un::TakeWhile(*c.one_of(&[Pred::Lt(2), Pred::Lt(1), Pred::Const(false), Pred::Even])),
    4 => Un::Contains(V::I(c.pick(3) as i64)),
    _ => Un::All(*c.one_of(&[Pred::Lt(2), Pred::Const(false), Pred::Even])),
  }
}

fn gen_case(c: &mut dyn Choices) -> Case {
  let case = gen_case_with(c, false);
  // (appended picks, recorded tapes keep their meaning) one case in eight ends the stream late instead:
  // after 33..120 items / ticks, with producers of 160 items and clock advances of 20..80 ticks
  let case = if c.pick(8) == 7 { gen_case_with(c, true) } else { case };
  // (appended picks) one case in five: the producer is the MAIN input of a two-input operator whose second input
  // is a hot subject (a gate that may stay silent), and the stream is ended by something else downstream:
  // take_until(stop) with a hot stop, or a cold sibling of a merge that fills a take at subscription
  let mut case = if c.pick(5) == 4 { gen_gated(c) } else { case };
  // (appended pick) a quarter of the cases measure time in units of 0.7 s or 1 s + 1 ns
  case.unit = *c.one_of(&[1u64, 1, 1, 1, 1, 1, 700_000_000, 1_000_000_001]);
  case
}

fn gen_gated(c: &mut dyn Choices) -> Case {
  // (SilentStream: new alternative at the high end of the pick, recorded tapes keep their meaning)
  let producer = match c.pick(5) {
    0 => Src::Interval(1 + c.pick(2) as u64),
    1 => Src::CountingIter(40),
    2 => Src::CountingStream(40),
    3 => Src::SilentStream,
    _ => Src::CountingTryStream(40),
  };
  let n_mid = c.pick(3);
  let mut chain = Node::Src(producer.clone());
  for _ in 0..n_mid {
    chain = Node::Un(gen_mid(c), c.pick(4) == 0, Box::new(chain));
  }
  let gate = gen_bin(c);
  let gated = Node::Bin(gate, c.pick(3) == 0, Box::new(chain), Box::new(Node::Src(Src::Hot(0))));
  let node = if c.flag() {
    Node::Bin(Bin::TakeUntil, c.pick(3) == 0, Box::new(gated), Box::new(Node::Src(Src::Hot(1))))
  } else {
    let k = 1 + c.pick(3);
    let sibling = Node::Src(Src::FromIter((0..k).map(|i| V::I(100 + i as i64)).collect()));
    Node::Un(Un::Take(k), false, Box::new(Node::Bin(Bin::Merge, c.pick(3) == 0, Box::new(sibling), Box::new(gated))))
  };
  let len = c.pick(11);
  let mut script = vec![];
  let mut id = 0;
  for _ in 0..len {
    script.push(match c.pick(6) {
      0 | 1 => {
        id += 1;
        Step::Emit(1, Ev::N(V::I(id % 4)))
      }
      2 => {
        id += 1;
        Step::Emit(0, Ev::N(V::I(id % 4)))
      }
      _ => Step::Advance(1 + c.pick(3) as u64),
    });
  }
  // the gating operator counts as an intermediate operator
  Case { unit: 1, producer, notifier_pos: None, n_mid: n_mid + 1, pcase: PCase { node, kinds: vec![IKind::Subject, IKind::Subject], script, mode: SchedMode::Fifo, threads: c.pick(3) == 0 } }
}

fn gen_case_with(c: &mut dyn Choices, late: bool) -> Case {
  // (CountingTryStream: new alternative at the high end of the pick, recorded tapes keep their meaning)
  let producer = match c.pick(5) {
    0 | 1 => Src::Interval(1 + c.pick(if late { 2 } else { 3 }) as u64),
    2 => Src::CountingIter(if late { 400 } else { 40 }),
    3 => Src::CountingStream(if late { 400 } else { 40 }),
    _ => Src::CountingTryStream(if late { 400 } else { 40 }),
  };
  let n_mid = c.pick(4);
  let mut chain = Node::Src(producer.clone());
  for _ in 0..n_mid {
    chain = Node::Un(gen_mid(c), c.pick(4) == 0, Box::new(chain));
  }
  let hot = Node::Src(Src::Hot(0));
  // where the producer sits
  let (node, notifier_pos) = match c.pick(3) {
    0 => {
      // main input of the cutter
      if c.pick(5) == 0 {
        (Node::Bin(Bin::TakeUntil, c.flag(), Box::new(chain), Box::new(hot)), None)
      } else if late {
        let n = crate::ast::pick_size(c, 33, 88, &[130, 257, 300]);
        let cutter = match c.pick(3) {
          0 => Un::Take(n),
          1 => Un::ElementAt(n),
          _ => Un::TakeWhile(Pred::Lt(n as i64)),
        };
        (Node::Un(cutter, false, Box::new(chain)), None)
      } else {
        (Node::Un(gen_cutter(c), false, Box::new(chain)), None)
      }
    }
    _ => {
      let op = gen_bin(c);
      let tf = c.pick(3) == 0;
      let bin = Node::Bin(op, tf, Box::new(hot), Box::new(chain));
      let node = if op == Bin::TakeUntil && c.flag() {
        bin
      } else if late {
        Node::Un(Un::Take(crate::ast::pick_size(c, 33, 88, &[130, 257, 300])), false, Box::new(bin))
      } else {
        Node::Un(gen_cutter(c), false, Box::new(bin))
      };
      (node, Some(op))
    }
  };
  let len = c.pick(11);
  let mut script = vec![];
  let mut id = 0;
  for _ in 0..len {
    if c.pick(5) < 3 {
      script.push(Step::Emit(0, Ev::N(V::I(id % 4))));
      id += 1;
    } else {
      script.push(Step::Advance(if late { 20 + c.pick(60) as u64 } else { 1 + c.pick(3) as u64 }));
    }
  }
  Case { unit: 1, producer, notifier_pos, n_mid, pcase: PCase { node, kinds: vec![IKind::Subject], script, mode: SchedMode::Fifo, threads: c.pick(3) == 0 } }
}

fn producer_name(s: &Src) -> &'static str {
  match s {
    Src::Interval(_) => "interval",
    Src::CountingIter(_) => "from_iter",
    Src::CountingStream(_) => "from_stream",
    Src::SilentStream => "from_stream(silent)",
    Src::CountingTryStream(_) => "from_stream_result",
    _ => "?",
  }
}

fn run_case(c: &mut dyn Choices, ctx: &Ctx) -> Outcome {
  let case = gen_case(c);
  let pos = match case.notifier_pos {
    None => "main".to_string(),
    Some(op) => format!("{op:?}"),
  };
  let pname = producer_name(&case.producer);
  if (ctx.known("not-retired:from_iter:main") && pname == "from_iter") || (ctx.known("not-retired:from_stream:main") && pname == "from_stream") {
    return Outcome { labels: vec!["excluded-known"], ..Outcome::discard() };
  }
  crate::vtime::set_unit(case.unit);
  let res = run_pcase(&case.pcase, false);
  let mut labels: Vec<&'static str> = vec![pname];
  labels.push(if case.notifier_pos.is_some() { "pos:second-input" } else { "pos:main" });
  if case.pcase.threads {
    labels.push("build:threads");
  }
  if case.pcase.kinds.len() == 2 {
    labels.push("shape:gated-main-input");
  }
  // intermediate operators with a timer of their own may need one more firing each to notice the end
  let mut timed = 0usize;
  case.pcase.node.visit(&mut |n| {
    if let Node::Un(Un::BufferWithTime(_) | Un::BufferWithCountAndTime(..) | Un::Debounce(_) | Un::ThrottleTime(..), ..) = n {
      timed += 1
    }
  });
  if timed > 0 {
    labels.push("timer-owning-intermediate");
  }
  // Without such operators the producer's own next firing (and one more for a second periodic producer) must be the
  // last. With them, one-shot timers that were already pending when the stream ended still fall due and may hand an
  // item to the next timer-owning operator downstream, which arms its timer once more: the count is not bounded by a
  // small constant, so there only "idle and nothing alive at the end of the bounded drain" is required.
  let slack: u64 = if timed > 0 { 1_000 } else { 2 };
  // not idle, but the terminal came within the last firings of the bounded drain: retirement could not be observed
  let late_margin: u64 = if timed > 0 { 8 } else { 2 };
  let mut nt = false;
  let verdict = match &res {
    Err(m) => Verdict::Violation { sig: format!("panic:{pname}:{pos}"), detail: m.clone() },
    Ok(tr) => match (&tr.counters_at_terminal, tr.recs.iter().any(|r| r.ev.is_terminal())) {
      (Some(at), true) => {
        labels.push("terminated");
        // was the producer exhausted (then there is nothing to retire)?
        let exhausted = match case.producer {
          Src::CountingIter(n) => at.iter_pulls >= n,
          Src::CountingStream(n) | Src::CountingTryStream(n) => at.stream_polls > n,
          _ => false,
        };
        nt = !exhausted && (case.n_mid >= 1 || case.notifier_pos.is_some());
        let silent = matches!(case.producer, Src::SilentStream);
        if silent && at.stream_polls > 0 {
          // the task was already parked on the never-ready stream when the end came: nothing will poll it again, so
          // its retirement cannot be demanded (nor observed)
          labels.push("silent-stream:parked-before-the-end");
          nt = false;
          Verdict::Ok
        } else if silent && (tr.counters.stream_polls > 1 || (tr.counters.stream_polls > 0 && (tr.live_tasks_end > 0 || !tr.quiescent))) {
          // (one poll that is followed by the task's retirement is within the property: "at most one further poll")
          Verdict::Violation {
            sig: format!("not-retired:{pname}:{pos}"),
            detail: format!("the stream had ended before the stream task first ran, but the task polled the never-ready stream {} time(s) (and stays parked on it: {} scheduled task(s) alive at the end)", tr.counters.stream_polls, tr.live_tasks_end),
          }
        } else if exhausted {
          labels.push("producer-exhausted");
          Verdict::Ok
        } else if tr.counters.iter_pulls > at.iter_pulls + 1 {
          Verdict::Violation {
            sig: format!("not-retired:{pname}:{pos}"),
            detail: format!("the subscriber got its terminal after {} items had been pulled from the iterator, but {} were pulled in the end", at.iter_pulls, tr.counters.iter_pulls),
          }
        } else if tr.counters.stream_polls > at.stream_polls + 1 {
          Verdict::Violation {
            sig: format!("not-retired:{pname}:{pos}"),
            detail: format!("the subscriber got its terminal after {} polls of the stream, but it was polled {} times in the end", at.stream_polls, tr.counters.stream_polls),
          }
        } else if !tr.quiescent && tr.counters.clock_firings <= at.clock_firings + late_margin {
          // the terminal came so late in the bounded final drain that retirement could not be observed
          labels.push("inconclusive:terminal-at-end-of-drain");
          nt = false;
          Verdict::Ok
        } else if !tr.quiescent || tr.live_tasks_end > 0 || tr.counters.clock_firings > at.clock_firings + slack {
          Verdict::Violation {
            sig: format!("not-retired:{pname}:{pos}"),
            detail: format!("after the terminal the scheduler does not become idle: {} timer firings after the terminal, quiescent={}, {} scheduled task(s) still alive, {} timer(s) pending", tr.counters.clock_firings - at.clock_firings, tr.quiescent, tr.live_tasks_end, tr.pending_timers_end),
          }
        } else {
          Verdict::Ok
        }
      }
      _ => Verdict::Ok,
    },
  };
  let desc = if ctx.want_desc || matches!(verdict, Verdict::Violation { .. }) {
    let mut j = pcase_json(&case.pcase);
    j["tick_ns"] = json!(case.unit);
    j["delivered"] = res.as_ref().map(|t| json!(t.short())).unwrap_or_else(|m| json!({ "panic": m }));
    if let Ok(t) = &res {
      j["iter_pulls(at terminal, end)"] = json!([t.counters_at_terminal.as_ref().map(|c| c.iter_pulls), t.counters.iter_pulls]);
      j["stream_polls(at terminal, end)"] = json!([t.counters_at_terminal.as_ref().map(|c| c.stream_polls), t.counters.stream_polls]);
      j["final_drain"] = json!({"timer_firings": t.drain_firings, "quiescent": t.quiescent, "live_tasks": t.live_tasks_end});
    }
    Some(j)
  } else {
    None
  };
  Outcome { verdict, nontrivial: nt, hash: hash_of(&case), labels, notes: vec![], desc }
}
