//! C15 — finalize runs its callback exactly once per subscription.
//! Engine S/P: generated trigger histories (complete / error / unsubscribe, repeated
//! through cloned handles) over pipelines containing finalize.
use crate::ast::*;
use crate::choice::{Choices, ChoicesExt};
use crate::common::*;
use crate::props::c01::pcase_json;
use crate::run::*;
use crate::value::*;
use serde_json::json;

pub fn prop() -> Prop {
  Prop {
    id: "C15",
    rule: "case = (source: hot Subject, hot create-handle, BehaviorSubject, never, or a cold `create` script that terminates at subscription; 0..2 pass-through operators, finalize (local or finalize_threads; thread-safe build), 0..2 further operators (pass-through, or take/first, or observe_on/delay on the virtual scheduler), optionally a second finalize; history of <= 8 steps (one case in eight: every item step becomes a run of 20..260 items): an item prefix, then complete / error / unsubscribe (or guard drop) in any order, each possibly repeated through cloned handles, more items in between). \
           Oracle: the callback counter of every finalize is 0 until the first trigger (source completion, source error, unsubscription), equals the number of finalize operators when the triggering step returns, and never changes afterwards; when the trigger is a terminal and nothing asynchronous sits downstream, the subscriber had received that terminal before the callback ran. Part `crowd`: 2..8 or 33..260 subscriptions `subject.finalize(f_i)` of one Subject / SubjectThreads; history of items, unsubscriptions of chosen subscribers (first, last, middle, every other), more items, then complete / error / nothing; every callback counter is read after every step: 0 before the subscriber's own unsubscription or the terminal, 1 from that step on, never 2. Non-trivial: >= 2 triggers in the history. Distinct by hash(case). Part `resubscribe`: a pipeline with 1..2 finalize operators over a cold source or a virtual-clock interval is built once; 2..3 clones are subscribed at generated (overlapping) times and each is unsubscribed 12 ticks after its start: the callbacks must have run exactly (number of finalize operators x number of subscriptions) times. Part `threads` (engine T): SubjectThreads -> finalize_threads -> probe; one thread sends 0..2 items and a terminal (complete or error, possibly twice through clones), another thread unsubscribes (possibly after an item of its own); schedule = <= 3 preemptions at lock-acquisition granularity (plus a yield inside the callback): after both threads have finished the callback has run exactly once, under every schedule; when the subscriber received the terminal the callback has run by the time the terminating call returns; the callback never runs while a notification is still being delivered to the subscriber on the other thread. Part `short` enumerates every trigger order of length <= 5 for the plain `hot.finalize()` pipeline.",
    assumptions: &[
      "with take/first downstream of finalize a Subject-backed source may never hand its terminal to the finished pipeline: then only 'at most once, not before a trigger, run by the time the subscription was unsubscribed' is checked; a `create`-backed source (cold script or harness-held handle) passes its terminal on unconditionally, so there the callback must have run when that step returns",
      "threads part: sequentially consistent interleavings at lock-acquisition granularity",
    ],
    parts: vec![
      Part { name: "histories", run: run_random, tape_len: 64, quick_cases: 800_000, thorough_cases: 16_000_000, exhaustive_depth: None, exhaustive_budget: 0, exh_quick: false },
      Part { name: "resubscribe", run: run_resub, tape_len: 48, quick_cases: 200_000, thorough_cases: 4_000_000, exhaustive_depth: None, exhaustive_budget: 0, exh_quick: false },
      Part { name: "threads", run: run_threads, tape_len: 24, quick_cases: 20_000, thorough_cases: 500_000, exhaustive_depth: None, exhaustive_budget: 0, exh_quick: false },
      Part { name: "short", run: run_short, tape_len: 16, quick_cases: 0, thorough_cases: 0, exhaustive_depth: Some(10), exhaustive_budget: 10_000_000, exh_quick: true },
      Part { name: "crowd", run: run_crowd, tape_len: 48, quick_cases: 60_000, thorough_cases: 1_200_000, exhaustive_depth: None, exhaustive_budget: 0, exh_quick: false },
    ],
  }
}

#[derive(Clone, Debug, Hash)]
struct Case {
  n_finalize: usize,
  async_downstream: bool,
  cutter_downstream: bool,
  pcase: PCase,
}

fn passthrough(c: &mut dyn Choices) -> Un {
  match c.pick(7) {
    0 => Un::Map(gen_mapf(c)),
    1 => Un::Filter(Pred::Const(true)),
    2 => Un::Tap,
    3 => Un::Scan(Fold::Add, V::I(0)),
    4 => Un::BoxIt,
    5 => Un::OnComplete,
    _ => Un::DistinctUntilChanged,
  }
}

fn gen_case(c: &mut dyn Choices) -> Case {
  let kind = *c.one_of(&[IKind::Subject, IKind::Subject, IKind::Create, IKind::Behavior]);
  let src = match c.pick(8) {
    0 => Src::Never,
    1 => {
      let n = c.pick(3);
      let mut evs: Vec<Ev> = (0..n).map(|i| Ev::N(V::I(i as i64))).collect();
      evs.push(if c.flag() { Ev::C } else { Ev::Er(E(1)) });
      Src::Create(evs.into_iter().map(|e| (0u8, e)).collect())
    }
    _ => match kind {
      IKind::Subject => Src::Hot(0),
      IKind::Create => Src::HotCreate(0),
      IKind::Behavior => Src::Behavior(0, V::I(0)),
    },
  };
  let mut node = Node::Src(src);
  for _ in 0..c.pick(3) {
    node = Node::Un(passthrough(c), false, Box::new(node));
  }
  node = Node::Un(Un::Finalize, c.pick(3) == 0, Box::new(node));
  let mut n_finalize = 1;
  let (mut async_downstream, mut cutter_downstream) = (false, false);
  for _ in 0..c.pick(3) {
    let op = match c.pick(8) {
      0 => {
        cutter_downstream = true;
        Un::Take(1 + c.pick(2))
      }
      1 => {
        cutter_downstream = true;
        Un::First
      }
      2 => {
        async_downstream = true;
        Un::ObserveOn
      }
      3 => {
        async_downstream = true;
        Un::Delay(1 + c.pick(2) as u64)
      }
      4 if !cutter_downstream && !async_downstream => {
        // (a finalize downstream of take/first is completed by that operator: kept out of this generator)
        n_finalize += 1;
        Un::Finalize
      }
      _ => passthrough(c),
    };
    node = Node::Un(op, c.pick(4) == 0, Box::new(node));
  }
  let len = c.pick(9);
  let mut script = vec![];
  let mut cut = false;
  let mut id = 0;
  for _ in 0..len {
    script.push(match c.pick(10) {
      0..=3 => {
        id += 1;
        Step::Emit(0, Ev::N(V::I(id)))
      }
      4 | 5 => Step::Emit(0, Ev::C),
      6 => Step::Emit(0, Ev::Er(E(2))),
      7 | 8 => {
        if cut {
          Step::Emit(0, Ev::C)
        } else {
          cut = true;
          if c.pick(4) == 0 {
            Step::DropGuard
          } else {
            Step::Unsub
          }
        }
      }
      _ => Step::Advance(1 + c.pick(2) as u64),
    });
  }
  let threads = c.pick(3) == 0;
  // (appended picks, recorded tapes keep their meaning) one case in eight at scale: every item of the script becomes a
  // run of 20..60 (or 64 / 65 / 130 / 260) items
  let mut script = script;
  if c.pick(8) == 7 {
    let k = pick_size(c, 20, 41, &[64, 65, 130, 260]);
    let mut long = vec![];
    let mut id = 1000;
    for st in script {
      if let Step::Emit(i, Ev::N(_)) = st {
        for _ in 0..k {
          id += 1;
          long.push(Step::Emit(i, Ev::N(V::I(id))));
        }
      } else {
        long.push(st);
      }
    }
    script = long;
  }
  Case { n_finalize, async_downstream, cutter_downstream, pcase: PCase { node, kinds: vec![kind], script, mode: SchedMode::Fifo, threads } }
}

fn judge(case: &Case, tr: &Trace) -> Result<(usize, bool), (String, String)> {
  // the first trigger: a terminal reaching the finalize operator's input, or the unsubscription
  let cold_terminates = {
    let mut t = false;
    case.pcase.node.visit(&mut |n| {
      if let Node::Src(Src::Create(_)) = n {
        t = true
      }
    });
    t
  };
  let never = {
    let mut t = false;
    case.pcase.node.visit(&mut |n| {
      if let Node::Src(Src::Never) = n {
        t = true
      }
    });
    t
  };
  // a `create`-backed source (cold script or harness-held handle) hands its terminal to the pipeline unconditionally
  // (Subscriber does not ask is_finished()), and only pass-through operators sit between it and the finalize operator:
  // the terminal reaches finalize even when a downstream take/first has already finished
  let create_backed = {
    let mut t = false;
    case.pcase.node.visit(&mut |n| {
      if let Node::Src(Src::Create(_)) | Node::Src(Src::HotCreate(_)) = n {
        t = true
      }
    });
    t
  };
  let mut first_terminal: Option<usize> = if cold_terminates { Some(0) } else { None };
  let mut first_unsub: Option<usize> = None;
  let mut first_trigger: Option<usize> = if cold_terminates { Some(0) } else { None }; // index into finalize_after_step
  let mut first_is_terminal = cold_terminates;
  let mut triggers = if cold_terminates { 1 } else { 0 };
  for (k, s) in case.pcase.script.iter().enumerate() {
    let trig = match s {
      Step::Emit(_, e) if e.is_terminal() && !never && !cold_terminates => Some(true),
      Step::Unsub | Step::DropGuard => Some(false),
      _ => None,
    };
    if trig == Some(false) && first_unsub.is_none() {
      first_unsub = Some(k + 1);
    }
    if trig == Some(true) && first_terminal.is_none() && first_unsub.is_none() {
      first_terminal = Some(k + 1);
    }
    if let Some(is_term) = trig {
      triggers += 1;
      if first_trigger.is_none() {
        first_trigger = Some(k + 1);
        first_is_terminal = is_term;
      }
    }
  }
  let n = case.n_finalize;
  let counts = &tr.finalize_after_step;
  for (i, c) in counts.iter().enumerate() {
    let step_desc = if i == 0 { "subscription".to_string() } else { format!("step {} ({})", i - 1, step_short(&case.pcase.script[i - 1])) };
    match first_trigger {
      Some(ft) if i >= ft => {
        if *c > n {
          return Err(("ran-twice".into(), format!("after {step_desc}: {} finalize callback run(s) for {} finalize operator(s)", c, n)));
        }
        // with take/first downstream the source's terminal may never reach the finalize operator
        // (a finished observer is skipped by subjects): then only an unsubscription must run it
        let must_have_run = !case.cutter_downstream || first_unsub.map_or(false, |u| i >= u) || (create_backed && first_terminal.map_or(false, |t| i >= t));
        if *c < n && must_have_run {
          return Err(("not-run".into(), format!("after {step_desc}: the subscription was completed/failed/unsubscribed at {} but only {} of {} finalize callback(s) have run", if ft == 0 { "subscription".into() } else { format!("step {}", ft - 1) }, c, n)));
        }
      }
      _ => {
        // before any trigger: a downstream take/first may not trigger finalize either (it does not end *this* subscription's source)
        if *c > 0 {
          return Err(("too-early".into(), format!("after {step_desc}: a finalize callback ran although the subscription had neither terminated nor been unsubscribed")));
        }
      }
    }
  }
  // terminal before callback
  if first_is_terminal && !case.async_downstream && !case.cutter_downstream {
    if let Some(p) = tr.recs.iter().position(|r| r.ev.is_terminal()) {
      for (_, seen) in &tr.counters.finalize_marks {
        if *seen < p + 1 {
          return Err(("before-terminal".into(), format!("a finalize callback ran after {} deliveries, before the subscriber had received the terminal (delivery #{})", seen, p + 1)));
        }
      }
    }
  }
  Ok((triggers, first_is_terminal))
}

fn finish(case: Case, ctx: &Ctx) -> Outcome {
  let res = run_pcase(&case.pcase, false);
  let mut labels: Vec<&'static str> = vec![];
  if case.pcase.threads {
    labels.push("build:threads");
  }
  if case.async_downstream {
    labels.push("async-downstream");
  }
  if case.cutter_downstream {
    labels.push("cutter-downstream");
  }
  let names = crate::props::c01::op_names(&case.pcase.node);
  let mut nt = false;
  let verdict = match &res {
    Err(m) => Verdict::Violation { sig: format!("panic:{names}"), detail: m.clone() },
    Ok(tr) => match judge(&case, tr) {
      Ok((triggers, _)) => {
        nt = triggers >= 2;
        Verdict::Ok
      }
      Err((k, d)) => Verdict::Violation { sig: format!("{k}:{names}"), detail: d },
    },
  };
  let desc = if ctx.want_desc || matches!(verdict, Verdict::Violation { .. }) {
    let mut j = pcase_json(&case.pcase);
    if let Ok(t) = &res {
      j["delivered"] = json!(t.short());
      j["finalize_runs_after(subscription, step0, step1, ...)"] = json!(t.finalize_after_step);
    }
    Some(j)
  } else {
    None
  };
  Outcome { verdict, nontrivial: nt, hash: hash_of(&case), labels, notes: vec![], desc }
}

fn run_random(c: &mut dyn Choices, ctx: &Ctx) -> Outcome {
  finish(gen_case(c), ctx)
}

fn run_short(c: &mut dyn Choices, ctx: &Ctx) -> Outcome {
  let kind = if c.flag() { IKind::Subject } else { IKind::Create };
  let tf = c.flag();
  let n = c.pick(6);
  let mut cut = false;
  let script = (0..n)
    .map(|_| match c.pick(4) {
      0 => Step::Emit(0, Ev::N(V::I(1))),
      1 => Step::Emit(0, Ev::C),
      2 => Step::Emit(0, Ev::Er(E(2))),
      _ => {
        if cut {
          Step::Emit(0, Ev::C)
        } else {
          cut = true;
          Step::Unsub
        }
      }
    })
    .collect();
  let src = if kind == IKind::Subject { Src::Hot(0) } else { Src::HotCreate(0) };
  let node = Node::Un(Un::Finalize, tf, Box::new(Node::Src(src)));
  finish(Case { n_finalize: 1, async_downstream: false, cutter_downstream: false, pcase: PCase { node, kinds: vec![kind], script, mode: SchedMode::Fifo, threads: false } }, ctx)
}


fn run_resub(c: &mut dyn Choices, ctx: &Ctx) -> Outcome {
  let src = match c.pick(4) {
    0 => Src::Interval(1 + c.pick(3) as u64),
    1 => Src::Never,
    _ => gen_cold_src(c, 3, 4),
  };
  let mut node = Node::Src(src);
  let mut n_finalize = 0;
  for _ in 0..(1 + c.pick(4)) {
    let op = if c.pick(3) == 0 || n_finalize == 0 {
      n_finalize += 1;
      Un::Finalize
    } else {
      passthrough(c)
    };
    node = Node::Un(op, c.pick(3) == 0, Box::new(node));
  }
  let n = 2 + c.pick(2);
  let mut starts = vec![0u64];
  for _ in 1..n {
    let l = *starts.last().unwrap();
    starts.push(l + c.pick(15) as u64);
  }
  let threads = c.pick(3) == 0;
  let res = guarded_strict(|| if threads { crate::threads::exec_overlap(&node, &starts, 12) } else { crate::local::exec_overlap(&node, &starts, 12) });
  let names = crate::props::c01::op_names(&node);
  let verdict = match &res {
    Err(m) => Verdict::Violation { sig: format!("panic:{names}"), detail: m.clone() },
    Ok(None) => return Outcome::discard(),
    Ok(Some((_, cn))) => {
      if cn.finalize_calls != n_finalize * n {
        Verdict::Violation {
          sig: format!("per-subscription-count:{names}"),
          detail: format!("{} finalize operator(s), {} subscriptions (all terminated or unsubscribed): the callbacks ran {} times, expected {}", n_finalize, n, cn.finalize_calls, n_finalize * n),
        }
      } else {
        Verdict::Ok
      }
    }
  };
  let desc = if ctx.want_desc || matches!(verdict, Verdict::Violation { .. }) {
    Some(json!({"pipeline": node.short(), "subscription_starts": starts, "each_unsubscribed_after": 12, "build": if threads {"threads"} else {"local"},
      "finalize_callback_runs": res.as_ref().ok().and_then(|r| r.as_ref().map(|(_, c)| c.finalize_calls))}))
  } else {
    None
  };
  Outcome { verdict, nontrivial: true, hash: hash_of(&(&node, &starts, threads)), labels: vec!["part:resubscribe"], notes: vec![], desc }
}


// ------------------------------------------------------------ engine T part

fn run_threads(c: &mut dyn Choices, ctx: &Ctx) -> Outcome {
  use crate::engine_t::{self, Verdict as TV};
  use rxrust::prelude::*;
  use std::sync::atomic::{AtomicUsize, Ordering};
  use std::sync::{Arc, Mutex};
  let items = c.pick(3);
  let error = c.flag();
  let twice = c.pick(3) == 0;
  let b_item = c.flag();
  let k = c.pick(4);
  let mut preemptions: Vec<(u64, usize)> = (0..k).map(|_| (1 + c.pick(25) as u64, c.pick(2))).collect();
  preemptions.sort();
  preemptions.dedup_by_key(|p| p.0);
  crate::vtime::reset(crate::vtime::Mode::Fifo);
  let runs = Arc::new(AtomicUsize::new(0));
  let subject = SubjectThreads::<i64, u8>::default();
  let r2 = runs.clone();
  // marks in global order: "enter"/"leave" of a delivery to the subscriber, "terminal-delivered", "finalize"
  let marks: Arc<Mutex<Vec<&'static str>>> = Arc::new(Mutex::new(vec![]));
  struct Quiet(Arc<Mutex<Vec<&'static str>>>);
  impl Quiet {
    fn cb(&self, terminal: bool) {
      self.0.lock().unwrap().push("enter");
      crate::engine_t::explicit_yield();
      if terminal {
        self.0.lock().unwrap().push("terminal-delivered");
      }
      self.0.lock().unwrap().push("leave");
    }
  }
  impl Observer<i64, u8> for Quiet {
    fn next(&mut self, _: i64) {
      self.cb(false)
    }
    fn error(self, _: u8) {
      self.cb(true)
    }
    fn complete(self) {
      self.cb(true)
    }
    fn is_finished(&self) -> bool {
      false
    }
  }
  let m2 = marks.clone();
  let sub = subject
    .clone()
    .finalize_threads(move || {
      r2.fetch_add(1, Ordering::SeqCst);
      m2.lock().unwrap().push("finalize");
      crate::engine_t::explicit_yield();
    })
    .actual_subscribe(Quiet(marks.clone()));
  let sub = Arc::new(Mutex::new(Some(sub)));
  let a: Box<dyn FnOnce() + Send> = {
    let mut s = subject.clone();
    let (marks, runs) = (marks.clone(), runs.clone());
    Box::new(move || {
      for i in 0..items {
        s.next(i as i64);
      }
      engine_t::call_begin();
      let t = s.clone();
      if error {
        t.error(5)
      } else {
        t.complete()
      }
      // the terminating call has returned: if the subscriber received the terminal, the completion was the
      // first of the triggering events and the callback must have run by now
      if marks.lock().unwrap().contains(&"terminal-delivered") && runs.load(Ordering::SeqCst) == 0 {
        marks.lock().unwrap().push("terminal-call-returned-without-finalize");
      }
      if twice {
        s.clone().complete();
      }
      engine_t::call_end();
    })
  };
  let b: Box<dyn FnOnce() + Send> = {
    let mut s = subject.clone();
    let sub = sub.clone();
    Box::new(move || {
      if b_item {
        s.next(77);
      }
      engine_t::call_begin();
      let u = sub.lock().unwrap().take();
      if let Some(u) = u {
        u.unsubscribe();
      }
      engine_t::call_end();
    })
  };
  let stats = engine_t::run_threads(vec![a, b], preemptions.clone(), 2_000);
  let n = runs.load(Ordering::SeqCst);
  let verdict = match &stats.verdict {
    TV::Completed => {
      let mk = marks.lock().unwrap().clone();
      // finalize between an "enter" and its "leave" = it ran while a notification was being delivered to the subscriber
      let mut depth = 0;
      let mut during = false;
      for m in &mk {
        match *m {
          "enter" => depth += 1,
          "leave" => depth -= 1,
          "finalize" if depth > 0 => during = true,
          _ => {}
        }
      }
      if n != 1 {
        Verdict::Violation { sig: format!("threads:{}:finalize_threads", if n == 0 { "not-run" } else { "ran-twice" }), detail: format!("a terminating thread raced an unsubscribing thread: the finalize callback ran {n} time(s)") }
      } else if mk.contains(&"terminal-call-returned-without-finalize") {
        Verdict::Violation { sig: "threads:late:finalize_threads".into(), detail: format!("the subscriber received the terminal and the terminating call returned, but the finalize callback had not run yet: {mk:?}") }
      } else if during {
        Verdict::Violation { sig: "threads:during-delivery:finalize_threads".into(), detail: format!("the finalize callback ran while a notification was still being delivered to the subscriber on another thread: {mk:?}") }
      } else {
        Verdict::Ok
      }
    }
    other => Verdict::Violation { sig: format!("threads:{}:finalize_threads", match other { TV::Deadlock(_) => "deadlock", TV::LostWakeup(_) => "lost-wakeup", TV::Panic(_) => "panic", _ => "livelock" }), detail: format!("{other:?}") },
  };
  let desc = if ctx.want_desc || matches!(verdict, Verdict::Violation { .. }) {
    Some(json!({"thread A": format!("{items} item(s), then {}{}", if error {"error"} else {"complete"}, if twice {", then complete through a clone"} else {""}), "thread B": format!("{}unsubscribe", if b_item {"next(77), "} else {""}), "preemptions(step->thread)": preemptions, "callback_runs": n}))
  } else {
    None
  };
  Outcome { verdict, nontrivial: stats.preemptions_taken > 0, hash: hash_of(&(items, error, twice, b_item, &preemptions)), labels: vec!["part:threads"], notes: vec![], desc }
}


// ------------------------------------------------------------ crowd part ----
// many subscriptions of one subject, each with its own finalize callback (thresholds in the subject's subscriber list)

#[derive(Clone, Debug, Hash)]
enum CrOp {
  Next,
  Unsub(usize),
  Complete,
  Error,
}

struct CrSink;
impl rxrust::prelude::Observer<i64, ()> for CrSink {
  fn next(&mut self, _: i64) {}
  fn error(self, _: ()) {}
  fn complete(self) {}
  fn is_finished(&self) -> bool {
    false
  }
}

macro_rules! impl_crowd {
  ($name:ident, $subj:ty, $fin:ident) => {
    /// counters of every subscriber after every step (index 0: after all subscriptions were made)
    fn $name(m: usize, ops: &[CrOp]) -> Vec<Vec<usize>> {
      use rxrust::prelude::*;
      use std::sync::atomic::{AtomicUsize, Ordering};
      use std::sync::Arc;
      let subject = <$subj>::default();
      let counters: Vec<Arc<AtomicUsize>> = (0..m).map(|_| Arc::new(AtomicUsize::new(0))).collect();
      let mut subs: Vec<Option<_>> = counters
        .iter()
        .map(|c| {
          let c = c.clone();
          Some(subject.clone().$fin(move || {
            c.fetch_add(1, Ordering::SeqCst);
          })
          .actual_subscribe(CrSink))
        })
        .collect();
      let read = |cs: &Vec<Arc<AtomicUsize>>| cs.iter().map(|c| c.load(Ordering::SeqCst)).collect::<Vec<_>>();
      let mut out = vec![read(&counters)];
      let mut item = 0i64;
      for op in ops {
        match op {
          CrOp::Next => {
            item += 1;
            subject.clone().next(item)
          }
          CrOp::Unsub(i) => {
            if let Some(s) = subs[*i % m].take() {
              s.unsubscribe()
            }
          }
          CrOp::Complete => subject.clone().complete(),
          CrOp::Error => subject.clone().error(()),
        }
        out.push(read(&counters));
      }
      drop(subs);
      out
    }
  };
}
impl_crowd!(crowd_local, rxrust::prelude::Subject<'static, i64, ()>, finalize);
impl_crowd!(crowd_threads, rxrust::prelude::SubjectThreads<i64, ()>, finalize_threads);

fn run_crowd(c: &mut dyn Choices, ctx: &Ctx) -> Outcome {
  let threads = c.flag();
  let m = pick_size(c, 2, 7, &[33, 40, 64, 65, 130, 260]);
  let n = c.pick(9);
  let mut ops = vec![];
  for _ in 0..n {
    ops.push(match c.pick(8) {
      0..=2 => CrOp::Next,
      3 => CrOp::Unsub(0),
      4 => CrOp::Unsub(m - 1),
      5 => CrOp::Unsub(c.pick(m)),
      6 => CrOp::Complete,
      _ => CrOp::Error,
    });
  }
  // expected counter of subscriber i after step k: 1 once it was unsubscribed or the subject terminated
  let mut exp = vec![vec![0usize; m]];
  let mut cur = vec![0usize; m];
  for op in &ops {
    match op {
      CrOp::Next => {}
      CrOp::Unsub(i) => cur[*i % m] = 1,
      CrOp::Complete | CrOp::Error => cur.iter_mut().for_each(|x| *x = 1),
    }
    exp.push(cur.clone());
  }
  let res = guarded(|| if threads { crowd_threads(m, &ops) } else { crowd_local(m, &ops) });
  let kind = if threads { "finalize_threads" } else { "finalize" };
  let verdict = match &res {
    Err(msg) => Verdict::Violation { sig: format!("crowd:panic:{kind}"), detail: msg.clone() },
    Ok(got) => {
      let mut v = Verdict::Ok;
      'o: for (k, (g, e)) in got.iter().zip(exp.iter()).enumerate() {
        for i in 0..m {
          if g[i] != e[i] {
            let what = if g[i] > e[i] { if e[i] == 0 { "too-early" } else { "ran-twice" } } else { "not-run" };
            v = Verdict::Violation {
              sig: format!("crowd:{what}:{kind}"),
              detail: format!("{m} subscribers; after step {} ({}) the callback of subscriber {i} had run {} time(s), expected {}", k as i64 - 1, if k == 0 { "subscriptions".to_string() } else { format!("{:?}", ops[k - 1]) }, g[i], e[i]),
            };
            break 'o;
          }
        }
      }
      v
    }
  };
  let nt = ops.iter().any(|o| matches!(o, CrOp::Unsub(_))) && ops.iter().any(|o| matches!(o, CrOp::Complete | CrOp::Error));
  let desc = if ctx.want_desc || matches!(verdict, Verdict::Violation { .. }) {
    Some(json!({"subject": if threads {"SubjectThreads"} else {"Subject"}, "subscribers": m, "history": ops.iter().map(|o| format!("{o:?}")).collect::<Vec<_>>()}))
  } else {
    None
  };
  let mut labels = vec!["part:crowd"];
  if m >= 33 {
    labels.push("crowd>=33");
  }
  Outcome { verdict, nontrivial: nt, hash: hash_of(&(threads, m, &ops)), labels, notes: vec![], desc }
}
