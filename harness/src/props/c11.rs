//! C11 — publish/connect and share subscribe the source once and multicast.
//! Engine S: model-based testing over subscribe/unsubscribe/emit histories.
use crate::ast::*;
use crate::choice::{Choices, ChoicesExt};
use crate::run::*;
use crate::value::*;
use serde_json::json;

pub fn prop() -> Prop {
  Prop {
    id: "C11",
    rule: "case = (shared observable = defer(counting factory -> source).tap(counter).share() | .share_threads() | .publish(); source: cold synchronous (`create` script), hot Subject, or interval on the virtual clock; history of <= 10 operations by <= 3 subscribers: subscribe, unsubscribe one, source event (hot), clock advance (interval), connect (publish); one case in eight is preceded by a crowd: 33..72 subscribers join, none / some / all but one / all of them leave again, the source may act). \
           Oracle: publish - the source is subscribed 0 times before connect() and exactly once after; share - 0 times before the first subscribe, exactly once from then on; every subscriber receives exactly the notifications sent while it was subscribed, once each (cold source: the first subscriber gets the whole sequence); after the last subscriber has unsubscribed the upstream side effect (tap) never runs again and, for interval, no scheduled task is alive one period later. Non-trivial: >= 2 subscribers with a leave between two emissions, or source activity after the last leave. Distinct by hash(case). Part `short` enumerates all histories of length <= 6 over a compact alphabet (thorough tier).",
    assumptions: &["what a subscriber receives when it joins after the source terminated, or after everybody left, is not constrained (only that the source is not subscribed again)"],
    parts: vec![
      Part { name: "histories", run: run_random, tape_len: 48, quick_cases: 600_000, thorough_cases: 12_000_000, exhaustive_depth: None, exhaustive_budget: 0, exh_quick: false },
      Part { name: "short", run: run_short, tape_len: 20, quick_cases: 0, thorough_cases: 0, exhaustive_depth: Some(14), exhaustive_budget: 40_000_000, exh_quick: false },
    ],
  }
}

#[derive(Clone, Debug, Hash)]
struct Case {
  src: ShSrc,
  publish: bool,
  threads: bool,
  ops: Vec<ShOp>,
}

fn gen_case(c: &mut dyn Choices, compact: bool) -> Case {
  let src = match c.pick(3) {
    0 => {
      let n = c.pick(3);
      let mut evs: Vec<Ev> = (0..n).map(|i| Ev::N(V::I(50 + i as i64))).collect();
      match c.pick(3) {
        0 => {}
        1 => evs.push(Ev::C),
        _ => evs.push(Ev::Er(E(4))),
      }
      ShSrc::Cold(evs)
    }
    1 => ShSrc::Hot,
    _ => ShSrc::Interval(1 + c.pick(2) as u64),
  };
  let publish = c.pick(4) == 0;
  let threads = if compact { false } else { c.pick(3) == 0 };
  let n = c.pick(if compact { 6 } else { 11 });
  let mut item = 0;
  let ops = (0..n)
    .map(|_| match c.pick(if publish { 9 } else { 8 }) {
      0 | 1 => ShOp::Subscribe,
      2 | 3 => ShOp::Unsub(c.pick(if compact { 2 } else { 3 })),
      4..=6 => match &src {
        ShSrc::Hot => {
          if c.pick(6) == 0 {
            ShOp::Emit(if c.flag() { Ev::C } else { Ev::Er(E(3)) })
          } else {
            item += 1;
            ShOp::Emit(Ev::N(V::I(item)))
          }
        }
        ShSrc::Interval(_) => ShOp::Advance(1 + c.pick(2) as u64),
        ShSrc::Cold(_) => ShOp::Subscribe,
      },
      7 => match &src {
        ShSrc::Interval(_) => ShOp::Advance(1),
        _ => ShOp::Unsub(0),
      },
      _ => ShOp::Connect,
    })
    .collect();
  Case { src, publish, threads, ops }
}

struct Expect {
  /// per subscriber expected events (None = unconstrained: joined after the end / after everybody left)
  per_sub: Vec<Option<Vec<Ev>>>,
  /// per step: expected number of source subscriptions
  src_subs: Vec<usize>,
  /// per step: true when the tap counter must not have moved during this step
  tap_frozen: Vec<bool>,
  /// steps after which no task may be alive (interval retired)
  idle_after: Vec<usize>,
  nontrivial: bool,
}

fn model(case: &Case) -> Expect {
  let mut per_sub: Vec<Option<Vec<Ev>>> = vec![];
  let mut alive: Vec<bool> = vec![];
  let mut connected = false;
  let mut src_dead = false; // source terminated
  let mut hot_dead = false; // the hot input itself has terminated (possibly before anybody connected)
  let mut torn_down = false; // last subscriber left after connection (share)
  let mut src_subs = vec![];
  let mut tap_frozen = vec![];
  let mut idle_after = vec![];
  let mut clock = 0u64;
  let mut next_tick: Option<(u64, i64)> = None; // (due, value)
  let mut left_at: Option<u64> = None;
  let mut emitted = false;
  let mut leave_between = false;
  let mut after_last_leave = false;
  let period = if let ShSrc::Interval(p) = &case.src { *p } else { 0 };
  let k_now = std::cell::Cell::new(0usize);
  let connect = |per_sub: &mut Vec<Option<Vec<Ev>>>, alive: &mut Vec<bool>, src_dead: &mut bool, next_tick: &mut Option<(u64, i64)>, clock: u64| {
    match &case.src {
      ShSrc::Cold(evs) => {
        for e in evs {
          for (i, a) in alive.iter_mut().enumerate() {
            if *a {
              if let Some(t) = per_sub[i].as_mut() {
                t.push(e.clone());
              }
              if e.is_terminal() {
                *a = false;
              }
            }
          }
          if e.is_terminal() {
            *src_dead = true;
            break;
          }
        }
      }
      ShSrc::Hot => {
        if hot_dead_at_connect(case, k_now.get()) {
          *src_dead = true; // connected to an input that had already terminated: nothing will ever arrive
        }
      }
      ShSrc::Interval(p) => *next_tick = Some((clock + *p, 0)),
    }
  };
  for (k, op) in case.ops.iter().enumerate() {
    k_now.set(k);
    let mut frozen = torn_down || src_dead;
    match op {
      ShOp::Subscribe => {
        if case.publish && connected {
          // not subscribed at all by the harness
          per_sub.push(None);
          alive.push(false);
        } else if src_dead || torn_down {
          per_sub.push(None);
          alive.push(false);
        } else {
          per_sub.push(Some(vec![]));
          alive.push(true);
          if !case.publish && !connected {
            connected = true;
            connect(&mut per_sub, &mut alive, &mut src_dead, &mut next_tick, clock);
            frozen = false;
          }
          if emitted {
            leave_between = true;
          }
        }
      }
      ShOp::Unsub(i) => {
        // the harness unsubscribes the i-th *held* handle; handles exist for every subscribe that was performed
        let held: Vec<usize> = (0..per_sub.len()).filter(|j| handle_held(&case.ops[..k], *j, case.publish)).collect();
        if !held.is_empty() {
          let j = held[*i % held.len()];
          let was_alive = alive[j];
          alive[j] = false;
          if was_alive && emitted {
            leave_between = true;
          }
          if !case.publish && connected && !torn_down && !src_dead && !alive.iter().any(|a| *a) && was_alive {
            torn_down = true;
            left_at = Some(clock);
            next_tick = None;
          }
        }
      }
      ShOp::Emit(ev) => {
        if matches!(case.src, ShSrc::Hot) {
          if torn_down {
            after_last_leave = true;
          }
          let was_dead = hot_dead;
          if ev.is_terminal() {
            hot_dead = true;
          }
          if connected && !src_dead && !torn_down && !was_dead {
            emitted = true;
            frozen = false;
            for (i, a) in alive.iter_mut().enumerate() {
              if *a {
                if let Some(t) = per_sub[i].as_mut() {
                  t.push(ev.clone());
                }
                if ev.is_terminal() {
                  *a = false;
                }
              }
            }
            if ev.is_terminal() {
              src_dead = true;
            }
          }
        }
      }
      ShOp::Advance(n) => {
        let target = clock + n;
        if torn_down {
          after_last_leave = true;
        }
        while let Some((due, v)) = next_tick {
          if due > target {
            break;
          }
          emitted = true;
          frozen = false;
          for (i, a) in alive.iter().enumerate() {
            if *a {
              if let Some(t) = per_sub[i].as_mut() {
                t.push(Ev::N(V::I(v)));
              }
            }
          }
          next_tick = Some((due + period, v + 1));
        }
        clock = target;
        if let Some(l) = left_at {
          if period > 0 && clock >= l + period {
            idle_after.push(k);
          }
        }
      }
      ShOp::Connect => {
        if case.publish && !connected {
          connected = true;
          connect(&mut per_sub, &mut alive, &mut src_dead, &mut next_tick, clock);
          frozen = false;
        }
      }
    }
    src_subs.push(if connected { 1 } else { 0 });
    tap_frozen.push(frozen);
  }
  let multi = per_sub.iter().filter(|p| p.is_some()).count() >= 2;
  Expect { per_sub, src_subs, tap_frozen, idle_after, nontrivial: (multi && leave_between) || after_last_leave }
}

/// had the hot input already received a terminal before step k?
fn hot_dead_at_connect(case: &Case, k: usize) -> bool {
  case.ops[..k].iter().any(|o| matches!(o, ShOp::Emit(e) if e.is_terminal()))
}

/// was a handle created for subscriber j (publish: only before connect) and not yet unsubscribed? -- the
/// harness keeps a handle for every Subscribe it performed; unsubscribed ones are removed in order.
fn handle_held(prefix: &[ShOp], j: usize, publish: bool) -> bool {
  // replay the prefix: which subscriber indices currently hold a handle
  let mut held: Vec<usize> = vec![];
  let mut n = 0;
  let mut connected = false;
  for op in prefix {
    match op {
      ShOp::Subscribe => {
        if !(publish && connected) {
          held.push(n);
        }
        n += 1;
      }
      ShOp::Unsub(i) => {
        if !held.is_empty() {
          let idx = *i % held.len();
          held.remove(idx);
        }
      }
      ShOp::Connect => connected = true,
      _ => {}
    }
  }
  held.contains(&j)
}

fn finish(case: Case, ctx: &Ctx) -> Outcome {
  let exp = model(&case);
  let res = guarded_strict(|| if case.threads { let r = crate::threads::exec_share(&case.src, case.publish, &case.ops); (r.traces, r.after_step) } else { let r = crate::local::exec_share(&case.src, case.publish, &case.ops); (r.traces, r.after_step) });
  let what = if case.publish { "publish" } else if case.threads { "share_threads" } else { "share" };
  let srcname = match case.src {
    ShSrc::Cold(_) => "cold",
    ShSrc::Hot => "hot",
    ShSrc::Interval(_) => "interval",
  };
  let labels = vec![what, srcname];
  let verdict = match &res {
    Err(m) => Verdict::Violation { sig: format!("panic:{what}:{srcname}"), detail: m.clone() },
    Ok((traces, after)) => {
      let mut v = Verdict::Ok;
      let mut prev_tap = 0;
      for (k, (subs, tap, live)) in after.iter().enumerate() {
        if *subs != exp.src_subs[k] {
          v = Verdict::Violation { sig: format!("source-subscriptions:{what}:{srcname}"), detail: format!("after step {k} ({:?}) the source had been subscribed {} time(s), expected {}", case.ops[k], subs, exp.src_subs[k]) };
          break;
        }
        if exp.tap_frozen[k] && *tap != prev_tap {
          v = Verdict::Violation { sig: format!("source-still-driven:{what}:{srcname}"), detail: format!("during step {k} ({:?}) the upstream tap ran although no subscriber was left / the source had ended", case.ops[k]) };
          break;
        }
        if exp.idle_after.contains(&k) && *live > 0 {
          v = Verdict::Violation { sig: format!("task-not-retired:{what}:{srcname}"), detail: format!("one period after the last subscriber left, {} scheduled task(s) are still alive (step {k})", live) };
          break;
        }
        prev_tap = *tap;
      }
      if matches!(v, Verdict::Ok) {
        for (i, e) in exp.per_sub.iter().enumerate() {
          if let Some(e) = e {
            let got: Vec<Ev> = traces.get(i).map(|t| t.iter().map(|(_, e)| e.clone()).collect()).unwrap_or_default();
            if got != *e {
              v = Verdict::Violation { sig: format!("multicast:{what}:{srcname}"), detail: format!("subscriber {i} received [{}], expected [{}]", evs_short(&got), evs_short(e)) };
              break;
            }
          }
        }
      }
      v
    }
  };
  let desc = if ctx.want_desc || matches!(verdict, Verdict::Violation { .. }) {
    Some(json!({
      "shared": what, "source": format!("{:?}", case.src), "history": case.ops.iter().map(|o| format!("{o:?}")).collect::<Vec<_>>(),
      "observed": res.as_ref().map(|(t, a)| json!({"per_subscriber": t.iter().map(|x| x.iter().map(|(s,e)| format!("{}@{}", ev_short(e), s)).collect::<Vec<_>>()).collect::<Vec<_>>(), "after_step(source_subscriptions, tap_calls, live_tasks)": a})).unwrap_or_else(|m| json!({"panic": m})),
    }))
  } else {
    None
  };
  Outcome { verdict, nontrivial: exp.nontrivial, hash: hash_of(&case), labels, notes: vec![], desc }
}

fn run_random(c: &mut dyn Choices, ctx: &Ctx) -> Outcome {
  let mut case = gen_case(c, false);
  // (appended picks, recorded tapes keep their meaning) one case in eight starts with a crowd: 33..72 subscribers
  // join; then nobody / the first / one in the middle and the first / everybody but one / everybody leaves again;
  // then the source may act; the generated history follows
  if c.pick(8) == 7 {
    let m = 33 + c.pick(40);
    let mut pre: Vec<ShOp> = (0..m).map(|_| ShOp::Subscribe).collect();
    match c.pick(5) {
      0 => {}
      1 => pre.push(ShOp::Unsub(0)),
      2 => {
        pre.push(ShOp::Unsub(m / 2));
        pre.push(ShOp::Unsub(0));
      }
      3 => pre.extend((0..m - 1).map(|_| ShOp::Unsub(0))),
      _ => pre.extend((0..m).map(|_| ShOp::Unsub(0))),
    }
    if c.flag() {
      match &case.src {
        ShSrc::Hot => pre.push(ShOp::Emit(Ev::N(V::I(900)))),
        ShSrc::Interval(p) => pre.push(ShOp::Advance(*p)),
        ShSrc::Cold(_) => {}
      }
    }
    pre.extend(case.ops);
    case.ops = pre;
  }
  finish(case, ctx)
}
/// compact generator for exhaustive enumeration
fn run_short(c: &mut dyn Choices, ctx: &Ctx) -> Outcome {
  let src = match c.pick(3) {
    0 => ShSrc::Cold(vec![Ev::N(V::I(50)), Ev::C]),
    1 => ShSrc::Hot,
    _ => ShSrc::Interval(1),
  };
  let publish = c.flag();
  let n = c.pick(7);
  let mut item = 0;
  let ops = (0..n)
    .map(|_| match c.pick(if publish { 6 } else { 5 }) {
      0 => ShOp::Subscribe,
      1 => ShOp::Unsub(0),
      2 => ShOp::Unsub(1),
      3 => match &src {
        ShSrc::Interval(_) => ShOp::Advance(1),
        _ => {
          item += 1;
          ShOp::Emit(Ev::N(V::I(item)))
        }
      },
      4 => match &src {
        ShSrc::Interval(_) => ShOp::Advance(2),
        _ => ShOp::Emit(Ev::C),
      },
      _ => ShOp::Connect,
    })
    .collect();
  finish(Case { src, publish, threads: false, ops }, ctx)
}
