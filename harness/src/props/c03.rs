//! C03 — sources and single-input operators compute their documented sequence.
//! Oracle: differential against the reference interpreter (`model.rs`), exact
//! sequence, terminal and causing step.
use crate::ast::*;
use crate::choice::{Choices, ChoicesExt};
use crate::model::{self, Inputs, Opts, Tl};
use crate::run::*;
use crate::stamp;
use crate::value::*;
use crate::vtime;
use rxrust::prelude::*;
use serde_json::json;

pub fn prop() -> Prop {
  Prop {
    id: "C03",
    rule: "case = (source: cold basic source | hot Subject | hot create-handle; input script of 0..6 items over {0..3} - one case in eight 20..100 items over {0..3} or {0..999} - with terminal none/complete/error (+ post-terminal events); chain of 1..5 operators from the C03 catalogue with parameters in 0..len+1 (one in 16: far larger - 32, 33, 255, 65536, 65537, usize::MAX/2, usize::MAX); local or thread-safe build). \
           Oracle: delivered (step, notification) list == reference interpreter. Non-trivial: the chain has a stateful operator and the input has >= 2 items, or a boundary count parameter (0, len, len+1), or the input ends in an error. Distinct by hash(AST, script, build). \
           Part `single-op` enumerates one operator x all inputs of length <= 4 over {0,1,2} x every terminal exhaustively. \
           Part `pairs` enumerates every ordered pair of the 37 operators (compact parameter families: counts 0..len+1, 5 predicates, 3 maps, 2 folds, 3 key functions) x all inputs of length <= 3 over {0,1,2} x every terminal x cold create / hot Subject source exhaustively (interaction of two stacked state machines); both exhaustive parts are complete in the quick tier too.",
    assumptions: &[
      "predicates / map / fold / key functions come from a fixed total family shared by pipeline and model",
      "buffer_with_count(0) is not generated; take(0): no item, terminal either immediate or the source's own; skip_last accepts both the eager (code) and the at-completion (doc) timing",
      "numeric aggregates project items to i64 (sum) / f64 (average, compared after rounding to 1e-3)",
    ],
    parts: vec![
      Part { name: "chains", run: run_chain, tape_len: 64, quick_cases: 1_500_000, thorough_cases: 30_000_000, exhaustive_depth: None, exhaustive_budget: 0, exh_quick: false },
      Part { name: "single-op", run: run_single, tape_len: 24, quick_cases: 100_000, thorough_cases: 400_000, exhaustive_depth: Some(16), exhaustive_budget: 5_000_000, exh_quick: true },
      Part { name: "pairs", run: run_pair, tape_len: 24, quick_cases: 50_000, thorough_cases: 400_000, exhaustive_depth: Some(20), exhaustive_budget: 80_000_000, exh_quick: true },
    ],
  }
}

#[derive(Clone, Debug, Hash)]
pub struct Case {
  pub node: Node,
  /// events sent into hot input 0 (empty for cold sources)
  pub script: Vec<Ev>,
  pub kind: u8, // 0 cold, 1 Subject, 2 create handle
  pub threads: bool,
}

fn gen_script(c: &mut dyn Choices, max_items: usize, alphabet: usize, post: bool) -> Vec<Ev> {
  let n = c.pick(max_items + 1);
  let mut s: Vec<Ev> = (0..n).map(|_| Ev::N(gen_v(c, alphabet))).collect();
  match c.pick(3) {
    0 => {}
    1 => s.push(Ev::C),
    _ => s.push(Ev::Er(gen_e(c))),
  }
  if post && s.last().map_or(false, |e| e.is_terminal()) {
    for _ in 0..c.pick(3) {
      s.push(match c.pick(4) {
        0 => Ev::C,
        1 => Ev::Er(gen_e(c)),
        _ => Ev::N(gen_v(c, alphabet)),
      });
    }
  }
  s
}

/// compact generator for the exhaustively enumerated sub-space: one operator,
/// input of <= 4 items over {0,1,2}, every terminal, cold (`create`) or hot (Subject)
fn gen_case_single(c: &mut dyn Choices) -> Case {
  let hot = c.flag();
  let n = c.pick(5);
  let mut script: Vec<Ev> = (0..n).map(|_| Ev::N(gen_v(c, 3))).collect();
  match c.pick(3) {
    0 => {}
    1 => script.push(Ev::C),
    _ => script.push(Ev::Er(E(1))),
  }
  let op = gen_un_c03(c, n, 3);
  if hot {
    Case { node: Node::un(op, Node::Src(Src::Hot(0))), script, kind: 1, threads: false }
  } else {
    let cs = script.into_iter().map(|e| (0u8, e)).collect();
    Case { node: Node::un(op, Node::Src(Src::Create(cs))), script: vec![], kind: 0, threads: false }
  }
}

/// bounded-exhaustive sub-space of operator pairs: two stacked operators, input of <= 3 items over {0,1,2}
fn gen_case_pair(c: &mut dyn Choices) -> Case {
  let hot = c.flag();
  let n = c.pick(4);
  let mut script: Vec<Ev> = (0..n).map(|_| Ev::N(gen_v(c, 3))).collect();
  match c.pick(3) {
    0 => {}
    1 => script.push(Ev::C),
    _ => script.push(Ev::Er(E(1))),
  }
  let op1 = gen_un_compact(c, n);
  let op2 = gen_un_compact(c, n);
  if hot {
    Case { node: Node::un(op2, Node::un(op1, Node::Src(Src::Hot(0)))), script, kind: 1, threads: false }
  } else {
    let cs = script.into_iter().map(|e| (0u8, e)).collect();
    Case { node: Node::un(op2, Node::un(op1, Node::Src(Src::Create(cs)))), script: vec![], kind: 0, threads: false }
  }
}

fn gen_case(c: &mut dyn Choices, single: bool) -> Case {
  let alphabet = if single { 3 } else { 4 };
  let kind = c.pick(3) as u8;
  let threads = if single { false } else { c.flag() };
  let (src, script, len_hint) = match kind {
    0 => {
      let s = gen_cold_src(c, if single { 4 } else { 5 }, alphabet);
      let l = match &s {
        Src::FromIter(v) => v.len(),
        Src::Repeat(_, n) => *n,
        Src::Create(s) => s.len(),
        _ => 1,
      };
      (s, vec![], l)
    }
    k => {
      let sc = gen_script(c, if single { 4 } else { 6 }, alphabet, !single);
      let l = sc.iter().take_while(|e| !e.is_terminal()).count();
      (if k == 1 { Src::Hot(0) } else { Src::HotCreate(0) }, sc, l)
    }
  };
  let depth = if single { 1 } else { 1 + c.pick(5) };
  let mut node = Node::Src(src);
  for _ in 0..depth {
    node = Node::un(gen_un_c03(c, len_hint, alphabet), node);
  }
  let mut case = Case { node, script, kind, threads };
  // (appended picks, so that recorded tapes keep their meaning) one case in eight is "long": the input is replaced
  // by 20..100 items over {0..3} or {0..999} - thresholds, batching and capacity logic only show at scale
  if !single && c.pick(8) == 7 {
    let n = pick_size(c, 20, 81, &[130, 257, 300, 520]);
    let alpha = if c.flag() { alphabet } else { 1000 };
    let items = gen_long_items(c, n, alpha);
    let term = match c.pick(3) {
      0 => None,
      1 => Some(Ev::C),
      _ => Some(Ev::Er(gen_e(c))),
    };
    if case.kind == 0 {
      let src = if term == Some(Ev::C) && c.flag() {
        Src::FromIter(items)
      } else {
        let mut evs: Vec<(u8, Ev)> = items.into_iter().map(|v| (0u8, Ev::N(v))).collect();
        if let Some(t) = term {
          evs.push((1, t));
        }
        Src::Create(evs)
      };
      case.node = replace_src(&case.node, src);
    } else {
      let mut sc: Vec<Ev> = items.into_iter().map(Ev::N).collect();
      sc.extend(term);
      case.script = sc;
    }
  }
  case
}

fn replace_src(n: &Node, src: Src) -> Node {
  match n {
    Node::Un(op, tf, inner) => Node::Un(op.clone(), *tf, Box::new(replace_src(inner, src))),
    _ => Node::Src(src),
  }
}

fn stateful(op: &Un) -> bool {
  !matches!(
    op,
    Un::Map(_) | Un::MapTo(_) | Un::Filter(_) | Un::FilterMap | Un::Tap | Un::IgnoreElements | Un::OnErrorMap(_) | Un::StartWith(_)
  )
}

fn op_name(op: &Un) -> String {
  let s = format!("{op:?}");
  s.split(|ch| ch == '(' || ch == ' ').next().unwrap().to_string()
}

pub fn chain_names(n: &Node) -> Vec<String> {
  let mut v = vec![];
  let mut cur = n;
  loop {
    match cur {
      Node::Un(op, _, inner) => {
        v.push(op_name(op));
        cur = inner;
      }
      Node::Src(s) => {
        let s = format!("{s:?}");
        v.push(s.split(|ch| ch == '(' || ch == ' ').next().unwrap().to_string());
        break;
      }
      _ => break,
    }
  }
  v.reverse();
  v
}

fn analyse(case: &Case) -> (bool, Vec<&'static str>) {
  let n_items = match &case.node_src() {
    Src::FromIter(v) => v.len(),
    Src::Repeat(_, n) => *n,
    Src::Create(s) => s.iter().take_while(|(_, e)| !e.is_terminal()).count(),
    Src::Hot(_) | Src::HotCreate(_) => case.script.iter().take_while(|e| !e.is_terminal()).count(),
    Src::Empty | Src::Never | Src::Throw(_) | Src::OfOption(None) | Src::OfResult(Err(_)) => 0,
    _ => 1,
  };
  let err_end = match &case.node_src() {
    Src::Throw(_) | Src::OfResult(Err(_)) => true,
    Src::Create(s) => s.iter().find(|(_, e)| e.is_terminal()).map_or(false, |(_, e)| matches!(e, Ev::Er(_))),
    Src::Hot(_) | Src::HotCreate(_) => case.script.iter().find(|e| e.is_terminal()).map_or(false, |e| matches!(e, Ev::Er(_))),
    _ => false,
  };
  let mut has_stateful = false;
  let mut boundary = false;
  let mut labels: Vec<&'static str> = vec![];
  case.node.visit(&mut |n| {
    if let Node::Un(op, _, _) = n {
      if stateful(op) {
        has_stateful = true;
      }
      match op {
        Un::Take(k) | Un::Skip(k) | Un::TakeLast(k) | Un::SkipLast(k) | Un::ElementAt(k) | Un::BufferWithCount(k) => {
          if *k == 0 || *k == n_items || *k == n_items + 1 {
            boundary = true;
          }
        }
        _ => {}
      }
    }
  });
  labels.push(match case.kind {
    0 => "src:cold",
    1 => "src:subject",
    _ => "src:create-handle",
  });
  if case.threads {
    labels.push("build:threads");
  }
  if err_end {
    labels.push("input:error");
  }
  if n_items >= 20 {
    labels.push("input:long");
  }
  if boundary {
    labels.push("param:boundary");
  }
  if case.script.iter().position(|e| e.is_terminal()).map_or(false, |p| p + 1 < case.script.len()) {
    labels.push("input:post-terminal");
  }
  let nt = (has_stateful && n_items >= 2) || boundary || err_end;
  (nt, labels)
}

impl Case {
  fn node_src(&self) -> Src {
    let mut cur = &self.node;
    loop {
      match cur {
        Node::Un(_, _, inner) => cur = inner,
        Node::Src(s) => return s.clone(),
        _ => return Src::Empty,
      }
    }
  }
}

/// run the real pipeline: returns the delivered (step, notification) list
pub fn execute(case: &Case) -> Result<Tl, String> {
  guarded(|| {
    vtime::reset(vtime::Mode::Fifo);
    stamp::set(stamp::AT_SUBSCRIBE);
    let conv = |recs: Vec<(usize, Ev)>| -> Tl {
      recs.into_iter().map(|(s, e)| (if s == stamp::AT_SUBSCRIBE { -1 } else { s as i64 }, e)).collect()
    };
    if case.threads {
      use crate::threads::*;
      let env = Env::new(1);
      let kind = if case.kind == 2 { InputKind::Create } else { InputKind::Subject };
      let p = build(&case.node, &env);
      let probe = Probe::new();
      let _sub = p.actual_subscribe(probe.clone());
      for (k, ev) in case.script.iter().enumerate() {
        stamp::set(k);
        emit(&env, kind, 0, ev);
      }
      let r = conv(probe.recs().into_iter().map(|r| (r.step, r.ev)).collect());
      env.teardown();
      r
    } else {
      use crate::local::*;
      let env = Env::new(1);
      let kind = if case.kind == 2 { InputKind::Create } else { InputKind::Subject };
      let p = build(&case.node, &env);
      let probe = Probe::new();
      let _sub = p.actual_subscribe(probe.clone());
      for (k, ev) in case.script.iter().enumerate() {
        stamp::set(k);
        emit(&env, kind, 0, ev);
      }
      let r = conv(probe.recs().into_iter().map(|r| (r.step, r.ev)).collect());
      env.teardown();
      r
    }
  })
}

fn tl_json(t: &Tl) -> serde_json::Value {
  json!(t.iter().map(|(s, e)| format!("{}@{}", ev_short(e), s)).collect::<Vec<_>>())
}

pub fn judge(case: &Case, ctx: &Ctx) -> Outcome {
  let (nt, labels) = analyse(case);
  let inputs = Inputs { hot: vec![case.script.iter().cloned().enumerate().map(|(k, e)| (k as i64, e)).collect()], beh_init: vec![] };
  let Some(expected) = model::eval(&case.node, &inputs, Opts::default()) else {
    return Outcome::discard();
  };
  let actual = execute(case);
  let (mut has_skip_last, mut has_take0) = (false, false);
  case.node.visit(&mut |n| {
    if matches!(n, Node::Un(Un::SkipLast(_), _, _)) {
      has_skip_last = true
    }
    if matches!(n, Node::Un(Un::Take(0), _, _)) {
      has_take0 = true
    }
  });
  let names = chain_names(&case.node).join(">");
  let verdict = match &actual {
    Err(msg) => Verdict::Violation { sig: format!("panic:{names}"), detail: format!("pipeline panicked: {msg}") },
    Ok(act) => {
      let mut ok = *act == expected;
      if !ok && (has_skip_last || has_take0) {
        for (a, b) in [(true, 0), (false, 1), (true, 1), (false, 2), (true, 2)] {
          let o = Opts { skip_last_lazy: a && has_skip_last, take0_immediate: b == 1 && has_take0, take0_at_first_item: b == 2 && has_take0, ..Opts::default() };
          if model::eval(&case.node, &inputs, o).map_or(false, |e| e == *act) {
            ok = true;
          }
        }
      }
      if ok {
        Verdict::Ok
      } else {
        let (ea, ee) = (model::strip(act), model::strip(&expected));
        let kind = if ea == ee {
          "timing"
        } else if ea.iter().filter(|e| !e.is_terminal()).eq(ee.iter().filter(|e| !e.is_terminal())) {
          "terminal"
        } else {
          "items"
        };
        Verdict::Violation {
          sig: format!("{kind}:{names}"),
          detail: format!("expected [{}] got [{}]", tl_json(&expected), tl_json(act)),
        }
      }
    }
  };
  let desc = if ctx.want_desc || matches!(verdict, Verdict::Violation { .. }) {
    Some(json!({
      "pipeline": case.node.short(),
      "input_script": evs_short(&case.script),
      "build": if case.threads {"threads"} else {"local"},
      "expected": tl_json(&expected),
      "delivered": actual.as_ref().map(tl_json).unwrap_or_else(|e| json!({"panic": e})),
    }))
  } else {
    None
  };
  Outcome { verdict, nontrivial: nt, hash: hash_of(case), labels, notes: vec![], desc }
}

fn excluded(case: &Case, ctx: &Ctx) -> bool {
  // sub-domains of listed findings that still reproduce are not generated
  ctx.known("terminal:Never") && matches!(case.node_src(), Src::Never)
}

fn run_chain(c: &mut dyn Choices, ctx: &Ctx) -> Outcome {
  let case = gen_case(c, false);
  if excluded(&case, ctx) {
    return Outcome { labels: vec!["excluded-known"], ..Outcome::discard() };
  }
  judge(&case, ctx)
}
fn run_pair(c: &mut dyn Choices, ctx: &Ctx) -> Outcome {
  let case = gen_case_pair(c);
  if excluded(&case, ctx) {
    return Outcome { labels: vec!["excluded-known"], ..Outcome::discard() };
  }
  judge(&case, ctx)
}
fn run_single(c: &mut dyn Choices, ctx: &Ctx) -> Outcome {
  let case = gen_case_single(c);
  if excluded(&case, ctx) {
    return Outcome { labels: vec!["excluded-known"], ..Outcome::discard() };
  }
  judge(&case, ctx)
}
