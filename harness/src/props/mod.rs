pub mod c01;
pub mod c03;
pub mod c18;

use crate::run::Prop;

pub fn all() -> Vec<Prop> {
  vec![c01::prop(), c03::prop(), c18::prop()]
}
