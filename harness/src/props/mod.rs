pub mod c03;

use crate::run::Prop;

pub fn all() -> Vec<Prop> {
  vec![c03::prop()]
}
