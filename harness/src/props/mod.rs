pub mod c01;
pub mod c02;
pub mod c03;
pub mod c04;
pub mod c05;
pub mod c06;
pub mod c07;
pub mod c08;
pub mod c09;
pub mod c10;
pub mod c11;
pub mod c12;
pub mod c13;
pub mod c14;
pub mod c15;
pub mod c16;
pub mod c17;
pub mod c18;
pub mod c19;
pub mod c20;

use crate::run::Prop;

pub fn all() -> Vec<Prop> {
  vec![c01::prop(), c02::prop(), c03::prop(), c04::prop(), c05::prop(), c06::prop(), c07::prop(), c08::prop(), c09::prop(), c10::prop(), c11::prop(), c12::prop(), c13::prop(), c14::prop(), c15::prop(), c16::prop(), c17::prop(), c18::prop(), c19::prop(), c20::prop()]
}
