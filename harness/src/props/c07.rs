//! C07 — scheduler-moving operators preserve the source's sequence and never
//! deliver early, under every scheduler model.
use crate::ast::*;
use crate::choice::{Choices, ChoicesExt};
use crate::common::*;
use crate::props::c01::pcase_json;
use crate::run::*;
use crate::value::*;
use serde_json::json;

use crate::vtime::{HOUR, TOL};

pub fn prop() -> Prop {
  Prop {
    id: "C07",
    rule: "case = (operator in observe_on / delay(d) / delay_subscription(d) / subscribe_on / delay_at / delay_subscription_at, d in {0,1,2,5} ticks (one delay case in eight: in units of 0.7 s or 1 s + 1 ns, the script's gaps scaled alike), _at instants now+{1,2,3}h or now-{1,2}h; local, per-node _threads or all-thread-safe build; timed script of <= 10 steps (one case in eight: preceded by a burst of 30..70 items) on the virtual clock (uniquely numbered items, one terminal, gaps 1/2/3/6 ticks, executor steps) followed by a tail that advances past every pending timer; scheduler model FIFO-prompt, FIFO-late (runs only at script steps) or any-ready-task-next (k-worker pool) with generated run order). \
           Oracle: delivered items are source items, each at most once; every item is delivered no earlier than production + d (for _at: the duration asked from the timer is the time remaining until the instant, within a 10 min tolerance, and 0 for a past instant); after quiescence the output is all source items in source order + the terminal (a prefix + error when the source failed); delayed subscription over a hot source sees exactly the events sent after its subscribing task ran. Non-trivial: >= 2 notifications pending at once, or a terminal scheduled while items are pending. Distinct by hash(case).",
    assumptions: &[
      "tick = 1 ns of virtual time; Instant::now() is real but only enters through hour-scale offsets compared with a 10 minute tolerance",
      "under the any-ready-task-next model observe_on / delay schedule one task per notification and nothing re-sequences them: reorder / loss there is a listed known finding (order and completeness are then not checked for that operator, never-early / no-invention / no-duplication still are)",
    ],
    parts: vec![Part { name: "timed", run: run_case, tape_len: 96, quick_cases: 800_000, thorough_cases: 16_000_000, exhaustive_depth: None, exhaustive_budget: 0, exh_quick: false }],
  }
}

#[derive(Clone, Debug, Hash)]
struct Case {
  op: Un,
  cold: Option<Vec<Ev>>,
  pcase: PCase,
  /// items on whose delivery the subscriber itself sends item + 5000 into the hot source, from inside its callback
  /// (observe_on / delay forms over a hot source only: there the callback runs in a scheduled task, not inside the
  /// source's own emission, so this is not re-entrant for the Subject)
  fb: Vec<i64>,
}

fn gen_case(c: &mut dyn Choices) -> Case {
  let op = match c.pick(8) {
    0 | 1 => Un::ObserveOn,
    2 | 3 => Un::Delay(*c.one_of(&[0u64, 1, 2, 5])),
    4 => Un::DelaySubscription(*c.one_of(&[0u64, 1, 2, 5])),
    5 => Un::SubscribeOn,
    6 => Un::DelayAt(*c.one_of(&[1i32, 2, 3, -1, -2])),
    _ => Un::DelaySubscriptionAt(*c.one_of(&[1i32, 2, -1])),
  };
  let is_sub = matches!(op, Un::DelaySubscription(_) | Un::SubscribeOn | Un::DelaySubscriptionAt(_));
  let is_at = matches!(op, Un::DelayAt(_) | Un::DelaySubscriptionAt(_));
  let mode = match c.pick(3) {
    0 => SchedMode::Fifo,
    1 => SchedMode::Lazy,
    _ => SchedMode::AnyOrder,
  };
  let cold = if is_sub && c.pick(3) == 0 {
    let n = c.pick(4);
    let mut evs: Vec<Ev> = (0..n).map(|i| Ev::N(V::I(100 + i as i64))).collect();
    evs.push(if c.pick(4) == 0 { Ev::Er(E(1)) } else { Ev::C });
    Some(evs)
  } else {
    None
  };
  let len = c.pick(11);
  let mut script = vec![];
  let mut next_id = 0i64;
  let mut terminated = false;
  for _ in 0..len {
    let r = c.pick(10);
    let st = if r < 5 {
      next_id += 1;
      Step::Emit(0, Ev::N(V::I(next_id)))
    } else if r < 7 {
      if is_at && c.pick(3) == 0 {
        Step::Advance(HOUR)
      } else {
        Step::Advance(*c.one_of(&[1u64, 2, 3, 6]))
      }
    } else if r < 9 {
      if mode == SchedMode::AnyOrder {
        Step::RunReady(c.pick(4))
      } else {
        Step::Run
      }
    } else if !terminated {
      terminated = true;
      Step::Emit(0, if c.pick(3) == 0 { Ev::Er(E(7)) } else { Ev::C })
    } else {
      next_id += 1;
      Step::Emit(0, Ev::N(V::I(next_id)))
    };
    script.push(st);
  }
  // tail: let every pending timer fall due, then run in a generated order
  script.push(Step::Advance(if is_at { 4 * HOUR } else { 10 }));
  if mode == SchedMode::AnyOrder {
    for _ in 0..8 {
      script.push(Step::RunReady(c.pick(6)));
    }
  } else {
    script.push(Step::Run);
  }
  let src = match &cold {
    Some(evs) => Node::Src(Src::Create(evs.iter().map(|e| (0u8, e.clone())).collect())),
    None => Node::Src(Src::Hot(0)),
  };
  let src = if is_sub { Node::Src(Src::Defer(Box::new(src))) } else { src };
  let tf = c.pick(3) == 0;
  let threads = c.pick(3) == 0;
  // (appended picks, recorded tapes keep their meaning) one case in eight starts with a burst of 30..70 more
  // items (many notifications pending at once)
  if c.pick(8) == 7 {
    let m = crate::ast::pick_size(c, 30, 41, &[130, 260]);
    let every = 1 + c.pick(12);
    let mut burst = vec![];
    for i in 0..m {
      burst.push(Step::Emit(0, Ev::N(V::I(1000 + i as i64))));
      if i % every == every - 1 {
        burst.push(Step::Advance(1 + c.pick(2) as u64));
      }
    }
    burst.extend(script);
    script = burst;
  }
  // (appended picks) one hot observe_on / delay case in four has a consumer that feeds the source from its callback
  let mut fb = vec![];
  if !is_sub && cold.is_none() && c.pick(4) == 3 {
    let ids: Vec<i64> = script.iter().filter_map(|s| if let Step::Emit(_, Ev::N(V::I(n))) = s { Some(*n) } else { None }).collect();
    if !ids.is_empty() {
      let k = 1 + c.pick(2);
      for _ in 0..k {
        let id = ids[c.pick(ids.len())];
        if !fb.contains(&id) {
          fb.push(id);
        }
      }
    }
  }
  // (appended picks) one delay / delay_subscription case in eight measures time in units of 0.7 s or 1 s + 1 ns instead
  // of single ticks: delays of 0.7 / 1.4 / 3.5 s ..., script gaps and the tail scaled alike
  let mut op = op;
  if matches!(op, Un::Delay(_) | Un::DelaySubscription(_)) && c.pick(8) == 7 {
    let unit = *c.one_of(&[700_000_000u64, 1_000_000_001]);
    op = match op {
      Un::Delay(d) => Un::Delay(d * unit),
      Un::DelaySubscription(d) => Un::DelaySubscription(d * unit),
      o => o,
    };
    for st in script.iter_mut() {
      if let Step::Advance(n) = st {
        *n *= unit;
      }
    }
  }
  // The consumer that feeds the source from inside its callback is no longer generated (its picks are still drawn, so
  // that recorded tapes keep their meaning): it re-enters the pipeline from a callback, which C10 explicitly does not
  // claim to be safe and C07 does not mention; a change that only affects such callers (observe_on asking
  // `is_finished()` of the cell it delivers through) was reported by this part although every clause of C07 held.
  let fb: Vec<i64> = { let _ = fb; vec![] };
  Case { op: op.clone(), cold, pcase: PCase { node: Node::Un(op, tf, Box::new(src)), kinds: vec![IKind::Subject], script, mode, threads }, fb }
}

fn op_name(op: &Un) -> &'static str {
  match op {
    Un::ObserveOn => "ObserveOn",
    Un::Delay(_) => "Delay",
    Un::DelaySubscription(_) => "DelaySubscription",
    Un::SubscribeOn => "SubscribeOn",
    Un::DelayAt(_) => "DelayAt",
    Un::DelaySubscriptionAt(_) => "DelaySubscriptionAt",
    _ => "?",
  }
}

/// minimal delay in ticks the operator must honour
fn min_delay(op: &Un) -> u64 {
  match op {
    Un::Delay(d) | Un::DelaySubscription(d) => *d,
    Un::DelayAt(h) | Un::DelaySubscriptionAt(h) => {
      if *h > 0 {
        *h as u64 * HOUR - TOL
      } else {
        0
      }
    }
    _ => 0,
  }
}

fn judge(case: &Case, tr: &Trace, ctx: &Ctx, notes: &mut Vec<String>) -> Result<(), (String, String)> {
  let name = op_name(&case.op);
  let is_sub = matches!(case.op, Un::DelaySubscription(_) | Un::SubscribeOn | Un::DelaySubscriptionAt(_));
  // virtual time at the start of every step
  let mut vt = vec![0u64; case.pcase.script.len() + 1];
  for (k, s) in case.pcase.script.iter().enumerate() {
    vt[k + 1] = vt[k] + if let Step::Advance(n) = s { *n } else { 0 };
  }
  // what the source sends (cut at its terminal): (step, vt, ev)
  let mut src: Vec<(i64, u64, Ev)> = vec![];
  match &case.cold {
    Some(evs) => {}
    None => {
      // script emissions of a step come first, then what the consumer fed back while that step was processed
      // (its production time is the virtual time of the delivery that triggered it); a hot source ignores
      // everything after its terminal
      for (k, s) in case.pcase.script.iter().enumerate() {
        if let Step::Emit(_, ev) = s {
          src.push((k as i64, vt[k], ev.clone()));
          if ev.is_terminal() {
            break;
          }
        }
        for (_, ft, v) in tr.fb.iter().filter(|(fk, _, _)| *fk == k) {
          src.push((k as i64, *ft, Ev::N(v.clone())));
        }
      }
      // fed back during the final drain (stamped with the step after the script)
      if !src.last().map(|(_, _, e)| e.is_terminal()).unwrap_or(false) {
        for (_, ft, v) in tr.fb.iter().filter(|(fk, _, _)| *fk >= case.pcase.script.len()) {
          src.push((case.pcase.script.len() as i64, *ft, Ev::N(v.clone())));
        }
      }
    }
  }
  let min_d = min_delay(&case.op);
  let out: Vec<&Rec> = tr.recs.iter().collect();
  // grammar
  if let Some(p) = out.iter().position(|r| r.ev.is_terminal()) {
    if p + 1 != out.len() {
      return Err((format!("grammar:{name}"), format!("notification after the terminal: {}", tr.short())));
    }
  }
  // _at: what was asked from the timer function
  if let Un::DelayAt(h) | Un::DelaySubscriptionAt(h) = &case.op {
    for r in &tr.requested {
      let ok = if *h > 0 { *r >= *h as u64 * HOUR - TOL && *r <= *h as u64 * HOUR } else { *r == 0 };
      if !ok {
        return Err((
          format!("at-duration:{name}"),
          format!("instant = now{:+}h but the timer was asked for {} ticks (expected {})", h, r, if *h > 0 { format!("{}..{} ticks", *h as u64 * HOUR - TOL, *h as u64 * HOUR) } else { "0 (instant in the past)".into() }),
        ));
      }
    }
  }
  if is_sub {
    // the moment the subscribing task ran
    let (sub_step, sub_vt) = match (tr.counters.defer_steps.first(), tr.counters.defer_vts.first()) {
      (Some(s), Some(v)) => (if *s == usize::MAX { -1 } else { *s as i64 }, *v),
      _ => {
        if !out.is_empty() {
          return Err((format!("invented:{name}"), format!("delivered {} although the source was never subscribed", tr.short())));
        }
        return Ok(());
      }
    };
    if tr.counters.defer_steps.len() > 1 {
      return Err((format!("subscribed-twice:{name}"), format!("source subscribed {} times", tr.counters.defer_steps.len())));
    }
    if sub_vt < min_d {
      return Err((format!("early:{name}"), format!("source subscribed at t={sub_vt} although the subscription was delayed by {min_d} ticks")));
    }
    let expected: Vec<(i64, Ev)> = match &case.cold {
      Some(evs) => evs.iter().map(|e| (sub_step, e.clone())).collect(),
      None => src.iter().filter(|(k, _, _)| *k > sub_step).map(|(k, _, e)| (*k, e.clone())).collect(),
    };
    let got: Vec<(i64, Ev)> = out.iter().map(|r| (if r.step == usize::MAX { -1 } else { r.step as i64 }, r.ev.clone())).collect();
    if got != expected {
      return Err((format!("sequence:{name}"), format!("subscribed during step {sub_step}; expected {:?}, delivered {:?}", expected, got)));
    }
    return Ok(());
  }
  // observe_on / delay / delay_at over the hot source
  let src_items: Vec<(u64, &V)> = src.iter().filter_map(|(_, t, e)| if let Ev::N(v) = e { Some((*t, v)) } else { None }).collect();
  let mut seen: Vec<&V> = vec![];
  for r in &out {
    if let Ev::N(v) = &r.ev {
      let Some((pt, _)) = src_items.iter().find(|(_, x)| *x == v) else {
        return Err((format!("invented:{name}"), format!("delivered item {} that the source never sent", v_short(v))));
      };
      if seen.contains(&v) {
        return Err((format!("duplicate:{name}"), format!("item {} delivered twice: {}", v_short(v), tr.short())));
      }
      seen.push(v);
      if r.vt < pt + min_d {
        return Err((format!("early:{name}"), format!("item {} produced at t={} delivered at t={} (< {} + {})", v_short(v), pt, r.vt, pt, min_d)));
      }
    }
  }
  let src_term = src.last().filter(|(_, _, e)| e.is_terminal()).map(|(_, t, e)| (*t, e.clone()));
  if let Some(r) = out.iter().find(|r| r.ev.is_terminal()) {
    match &src_term {
      None => return Err((format!("invented-terminal:{name}"), format!("terminal delivered although the source did not terminate: {}", tr.short()))),
      Some((t, e)) => {
        if r.ev != *e {
          return Err((format!("wrong-terminal:{name}"), format!("source terminal {:?}, delivered {:?}", e, r.ev)));
        }
        // (the statement times items only: when the terminal is forwarded is not constrained, as long as it comes after
        // every item - which the order / completeness part below decides. An earlier version demanded that a
        // completion is delayed like an item and raised a false alarm on a change that forwards the completion of an
        // empty source at once.)
        let _ = t;
      }
    }
  }
  if !tr.quiescent {
    notes.push("not-quiescent".into());
    return Ok(());
  }
  // order and completeness
  let got_items: Vec<&V> = out.iter().filter_map(|r| if let Ev::N(v) = &r.ev { Some(v) } else { None }).collect();
  let all_items: Vec<&V> = src_items.iter().map(|(_, v)| *v).collect();
  let in_order = {
    let mut it = all_items.iter();
    got_items.iter().all(|g| it.any(|a| a == g))
  };
  let got_term = out.iter().any(|r| r.ev.is_terminal());
  let problem: Option<(&str, String)> = if !in_order {
    Some(("reorder", format!("source order {:?}, delivered {}", all_items.iter().map(|v| v_short(v)).collect::<Vec<_>>(), tr.short())))
  } else {
    match &src_term {
      Some((_, Ev::Er(_))) => {
        // a prefix of the items, then the error
        let is_prefix = got_items.len() <= all_items.len() && got_items.iter().zip(all_items.iter()).all(|(a, b)| a == b);
        if !is_prefix {
          Some(("loss", format!("after a source error the delivered items must be a prefix: {}", tr.short())))
        } else if !got_term {
          Some(("loss", format!("the source's error was never delivered: {}", tr.short())))
        } else {
          None
        }
      }
      Some(_) => {
        if got_items != all_items || !got_term {
          Some(("loss", format!("source completed after {:?} but delivered {}", all_items.iter().map(|v| v_short(v)).collect::<Vec<_>>(), tr.short())))
        } else {
          None
        }
      }
      None => {
        if got_items != all_items {
          Some(("loss", format!("source sent {:?} but delivered {}", all_items.iter().map(|v| v_short(v)).collect::<Vec<_>>(), tr.short())))
        } else {
          None
        }
      }
    }
  };
  if let Some((kind, detail)) = problem {
    let sig = if case.pcase.mode == SchedMode::AnyOrder { format!("anyorder:{}:{kind}", base_name(name)) } else { format!("{kind}:{name}") };
    if ctx.known(&sig) {
      notes.push(format!("excluded-known {sig}"));
      return Ok(());
    }
    return Err((sig, detail));
  }
  Ok(())
}

fn base_name(n: &str) -> &str {
  if n == "DelayAt" {
    "Delay"
  } else {
    n
  }
}

fn run_case(c: &mut dyn Choices, ctx: &Ctx) -> Outcome {
  let case = gen_case(c);
  let res = crate::common::run_pcase_fb(&case.pcase, false, &case.fb);
  let mut notes = vec![];
  let mut labels: Vec<&'static str> = vec![op_name(&case.op)];
  if !case.fb.is_empty() {
    labels.push("consumer-feeds-source");
  }
  labels.push(match case.pcase.mode {
    SchedMode::Fifo => "mode:fifo",
    SchedMode::Lazy => "mode:lazy",
    SchedMode::AnyOrder => "mode:anyorder",
  });
  if case.pcase.threads {
    labels.push("build:threads");
  }
  // non-trivial: two emissions without the executor running / the clock passing the delay in between
  let mut pending_run = 0;
  let mut nt = false;
  for s in &case.pcase.script {
    match s {
      Step::Emit(..) => {
        pending_run += 1;
        if pending_run >= 2 {
          nt = true;
        }
      }
      Step::Run | Step::RunReady(_) => pending_run = 0,
      Step::Advance(n) => {
        if case.pcase.mode == SchedMode::Fifo && *n >= min_delay(&case.op).max(1) {
          pending_run = 0
        }
      }
      _ => {}
    }
  }
  if case.pcase.mode == SchedMode::Fifo && matches!(case.op, Un::ObserveOn | Un::SubscribeOn) {
    // prompt executor runs after every emission: only >= 2 items make it interesting
    nt = case.pcase.script.iter().filter(|s| matches!(s, Step::Emit(..))).count() >= 2;
  }
  let verdict = match &res {
    Err(m) => Verdict::Violation { sig: format!("panic:{}", op_name(&case.op)), detail: m.clone() },
    Ok(tr) => match judge(&case, tr, ctx, &mut notes) {
      Ok(()) => Verdict::Ok,
      Err((sig, detail)) => Verdict::Violation { sig, detail },
    },
  };
  let excluded = notes.iter().any(|n| n.starts_with("excluded-known"));
  if excluded {
    labels.push("excluded-known");
  }
  let desc = if ctx.want_desc || matches!(verdict, Verdict::Violation { .. }) {
    let mut j = pcase_json(&case.pcase);
    j["delivered(event@step, t)"] = res
      .as_ref()
      .map(|t| json!(t.recs.iter().map(|r| format!("{}@{} t={}", ev_short(&r.ev), if r.step == usize::MAX { -1 } else { r.step as i64 }, r.vt)).collect::<Vec<_>>()))
      .unwrap_or_else(|m| json!({ "panic": m }));
    if !case.fb.is_empty() {
      j["consumer_sends_item_plus_5000_into_the_source_on_receiving"] = json!(case.fb);
    }
    if let Ok(t) = &res {
      j["timer_requests_ticks"] = json!(t.requested);
      if !case.fb.is_empty() {
        j["fed_back(step, t, item)"] = json!(t.fb.iter().map(|(k, vt, v)| format!("{}@{} t={}", v_short(v), k, vt)).collect::<Vec<_>>());
      }
    }
    Some(j)
  } else {
    None
  };
  Outcome { verdict, nontrivial: nt, hash: hash_of(&case), labels, notes, desc }
}
