//! engine S, part 1: uniform access to the five subject types for history-based
//! (stateful, model-based) testing.
use rxrust::prelude::*;
use std::sync::{Arc, Mutex};

/// what a subscriber saw: N(value) / E(code) / C
#[derive(Clone, Debug, PartialEq, Eq, Hash)]
pub enum SEvt {
  N(i64),
  E(u8),
  C,
}

pub type Log = Arc<Mutex<Vec<(usize, SEvt)>>>; // (subscriber id, event) in global delivery order

/// object-safe view of a subject under test
pub trait SubjLike {
  fn next(&mut self, v: i64);
  fn error(&mut self, e: u8);
  fn complete(&mut self);
  fn unsubscribe_all(&mut self);
  fn retain(&mut self);
  fn is_finished(&self) -> bool;
  fn is_empty(&self) -> bool;
  fn len(&self) -> usize;
  /// subscribe probe `id`; with `nest = Some(child)` the probe subscribes probe `child`
  /// to a clone of the subject from inside its first `next` callback
  fn subscribe(&mut self, id: usize, nest: Option<usize>, log: &Log) -> Box<dyn SubHandle>;
}
pub trait SubHandle {
  fn unsubscribe(self: Box<Self>);
  fn is_closed(&self) -> bool;
}
impl<T: Subscription> SubHandle for T {
  fn unsubscribe(self: Box<Self>) {
    Subscription::unsubscribe(*self)
  }
  fn is_closed(&self) -> bool {
    Subscription::is_closed(self)
  }
}

macro_rules! impl_subj {
  ($wrap:ident, $subj:ty, $probe:ident, $item_ty:ty, $err_ty:ty, $item_any:ty, $err_any:ty, |$v:ident| $mk_item:expr, |$e:ident| $mk_err:expr, |$iv:ident| $rd_item:expr, |$ie:ident| $rd_err:expr) => {
    pub struct $wrap(pub $subj);
    pub struct $probe {
      id: usize,
      log: Log,
      nest: Option<(usize, $subj)>,
    }
    impl<'a, 'b> Observer<$item_ty, $err_ty> for $probe {
      fn next(&mut self, $iv: $item_ty) {
        let val: i64 = $rd_item;
        self.log.lock().unwrap().push((self.id, SEvt::N(val)));
        if let Some((child, subj)) = self.nest.take() {
          // subscribe from inside the callback
          let p = $probe { id: child, log: self.log.clone(), nest: None };
          let _ = subj.actual_subscribe(p);
        }
      }
      fn error(self, $ie: $err_ty) {
        let code: u8 = $rd_err;
        self.log.lock().unwrap().push((self.id, SEvt::E(code)));
      }
      fn complete(self) {
        self.log.lock().unwrap().push((self.id, SEvt::C));
      }
      fn is_finished(&self) -> bool {
        false
      }
    }
    impl SubjLike for $wrap {
      fn next(&mut self, $v: i64) {
        #[allow(unused_mut)]
        let mut $v = $v;
        let mut h = self.0.clone();
        h.next($mk_item);
      }
      fn error(&mut self, $e: u8) {
        #[allow(unused_mut)]
        let mut $e = $e;
        let h = self.0.clone();
        h.error($mk_err);
      }
      fn complete(&mut self) {
        self.0.clone().complete();
      }
      fn unsubscribe_all(&mut self) {
        self.0.clone().unsubscribe();
      }
      fn retain(&mut self) {
        self.0.clone().retain();
      }
      fn is_finished(&self) -> bool {
        Observer::<$item_any, $err_any>::is_finished(&self.0)
      }
      fn is_empty(&self) -> bool {
        SubjectSize::is_empty(&self.0)
      }
      fn len(&self) -> usize {
        SubjectSize::len(&self.0)
      }
      fn subscribe(&mut self, id: usize, nest: Option<usize>, log: &Log) -> Box<dyn SubHandle> {
        let p = $probe { id, log: log.clone(), nest: nest.map(|c| (c, self.0.clone())) };
        Box::new(self.0.clone().actual_subscribe(p))
      }
    }
  };
}

impl_subj!(WSubject, Subject<'static, i64, u8>, PSubject, i64, u8, i64, u8, |v| v, |e| e, |iv| iv, |ie| ie);
impl_subj!(WSubjectThreads, SubjectThreads<i64, u8>, PSubjectThreads, i64, u8, i64, u8, |v| v, |e| e, |iv| iv, |ie| ie);
impl_subj!(WMutRefItem, MutRefItemSubject<'static, i64, u8>, PMutRefItem, &'a mut i64, u8, &'_ mut i64, u8, |v| &mut v, |e| e, |iv| *iv, |ie| ie);
impl_subj!(WMutRefErr, MutRefErrSubject<'static, i64, u8>, PMutRefErr, i64, &'b mut u8, i64, &'_ mut u8, |v| v, |e| &mut e, |iv| iv, |ie| *ie);
impl_subj!(WMutRefItemErr, MutRefItemErrSubject<'static, i64, u8>, PMutRefItemErr, &'a mut i64, &'b mut u8, &'_ mut i64, &'_ mut u8, |v| &mut v, |e| &mut e, |iv| *iv, |ie| *ie);

pub const SUBJECT_KINDS: [&str; 5] = ["Subject", "SubjectThreads", "MutRefItemSubject", "MutRefErrSubject", "MutRefItemErrSubject"];

pub fn new_subject(kind: usize) -> Box<dyn SubjLike> {
  match kind % 5 {
    0 => Box::new(WSubject(Subject::default())),
    1 => Box::new(WSubjectThreads(SubjectThreads::default())),
    2 => Box::new(WMutRefItem(MutRefItemSubject::default())),
    3 => Box::new(WMutRefErr(MutRefErrSubject::default())),
    _ => Box::new(WMutRefItemErr(MutRefItemErrSubject::default())),
  }
}
