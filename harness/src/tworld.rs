//! engine T, part 2: the concurrent world the managed threads act on — thread-safe
//! pipelines over two SubjectThreads inputs, probes that detect overlapping
//! callbacks, and a harness-driven multi-thread scheduler (VerifSpawner).
use crate::engine_t;
use crate::vtime::ticks;
use futures::future::BoxFuture;
use futures::task::{waker, ArcWake};
use rxrust::ops::box_it::BoxOpThreads;
use rxrust::prelude::*;
use rxrust::scheduler::VerifSpawner;
use std::collections::VecDeque;
use std::sync::atomic::{AtomicBool, Ordering};
use std::sync::{Arc, Mutex};

pub type Item = i64;
pub type Er = u8;
pub type Pipe = BoxOpThreads<Item, Er>;
pub type Subj = SubjectThreads<Item, Er>;
pub type TSub = BoxSubscriptionThreads;

// ------------------------------------------------------------ scheduler ----

pub struct Task {
  fut: Mutex<Option<BoxFuture<'static, ()>>>,
  q: Arc<TaskQueue>,
}
impl ArcWake for Task {
  fn wake_by_ref(a: &Arc<Self>) {
    a.q.q.lock().unwrap().push_back(a.clone());
  }
}
#[derive(Default)]
pub struct TaskQueue {
  q: Mutex<VecDeque<Arc<Task>>>,
}
impl TaskQueue {
  pub fn spawner(self: &Arc<Self>) -> VerifSpawner {
    let q = self.clone();
    VerifSpawner(Arc::new(move |fut: BoxFuture<'static, ()>| {
      let t = Arc::new(Task { fut: Mutex::new(Some(fut)), q: q.clone() });
      q.q.lock().unwrap().push_back(t);
    }))
  }
  pub fn len(&self) -> usize {
    self.q.lock().unwrap().len()
  }
  /// poll the task at the front of the queue once; false when the queue is empty
  pub fn run_one(self: &Arc<Self>) -> bool {
    let t = self.q.lock().unwrap().pop_front();
    let Some(t) = t else { return false };
    let wk = waker(t.clone());
    let mut cx = std::task::Context::from_waker(&wk);
    // take the future out while polling so that no harness lock is held across yields
    let fut = t.fut.lock().unwrap().take();
    if let Some(mut f) = fut {
      if f.as_mut().poll(&mut cx).is_pending() {
        *t.fut.lock().unwrap() = Some(f);
      }
    }
    true
  }
}

// ------------------------------------------------------------ probes -------

#[derive(Clone, Debug, PartialEq, Eq)]
pub enum Mark {
  Enter(usize, PEv),
  Leave(usize),
}
#[derive(Clone, Debug, PartialEq, Eq, Hash)]
pub enum PEv {
  N(Item),
  E(Er),
  C,
}

/// (probe id, mark) in global order
pub type TLog = Arc<Mutex<Vec<(usize, Mark)>>>;

/// one API call made by a script thread: logical begin / end times (only one thread runs at a
/// time, so a shared counter gives a total order)
#[derive(Clone, Debug)]
pub struct CallRec {
  pub tid: usize,
  pub what: String,
  pub item: Option<Item>,
  pub probe: Option<usize>,
  pub begin: u64,
  pub end: u64,
}

pub struct TProbe {
  pub id: usize,
  pub log: TLog,
  /// set by the harness when unsubscribe() has returned (C02)
  pub cut: Option<Arc<AtomicBool>>,
  pub after_cut: Option<Arc<AtomicBool>>,
  pub clock: Option<Arc<std::sync::atomic::AtomicU64>>,
  pub deliveries: Option<Arc<Mutex<Vec<(u64, usize, PEv)>>>>,
  /// subscribe one more probe to input 0 from inside the first `next` callback
  pub nest: Option<World>,
}
thread_local! { pub static TID: std::cell::Cell<usize> = std::cell::Cell::new(0); }

impl TProbe {
  fn cb(&mut self, e: PEv) {
    let tid = TID.with(|t| t.get());
    if let (Some(c), Some(a)) = (&self.cut, &self.after_cut) {
      if c.load(Ordering::SeqCst) {
        a.store(true, Ordering::SeqCst);
      }
    }
    if let (Some(c), Some(d)) = (&self.clock, &self.deliveries) {
      let t = c.fetch_add(1, Ordering::SeqCst);
      d.lock().unwrap().push((t, self.id, e.clone()));
    }
    self.log.lock().unwrap().push((self.id, Mark::Enter(tid, e)));
    if let Some(w) = self.nest.take() {
      let id = w.subscribe(w.pipe(0));
      w.nested_probes.lock().unwrap().push(id);
    }
    engine_t::explicit_yield();
    self.log.lock().unwrap().push((self.id, Mark::Leave(tid)));
  }
}
impl Observer<Item, Er> for TProbe {
  fn next(&mut self, v: Item) {
    self.cb(PEv::N(v))
  }
  fn error(mut self, e: Er) {
    self.cb(PEv::E(e))
  }
  fn complete(mut self) {
    self.cb(PEv::C)
  }
  fn is_finished(&self) -> bool {
    false
  }
}

/// callbacks of one probe overlapping (entered while another is inside)?
pub fn overlapping(log: &[(usize, Mark)]) -> Option<String> {
  let mut inside: std::collections::HashMap<usize, usize> = Default::default(); // probe -> thread inside
  for (p, m) in log {
    match m {
      Mark::Enter(t, e) => {
        if let Some(other) = inside.get(p) {
          return Some(format!("probe {p}: thread {t} entered the callback ({e:?}) while thread {other} was still inside"));
        }
        inside.insert(*p, *t);
      }
      Mark::Leave(_) => {
        inside.remove(p);
      }
    }
  }
  None
}

pub fn events_of(log: &[(usize, Mark)], probe: usize) -> Vec<PEv> {
  log.iter().filter_map(|(p, m)| if *p == probe { if let Mark::Enter(_, e) = m { Some(e.clone()) } else { None } } else { None }).collect()
}

// ------------------------------------------------------------ pipelines ----

pub const PIPES: [&str; 12] = [
  "SubjectThreads",
  "merge_threads",
  "zip_threads",
  "combine_latest_threads",
  "merge_all_threads",
  "take_until_threads",
  "share_threads",
  "observe_on_threads",
  "delay_threads",
  // beyond C10's list (used by the thread parts of C02)
  "debounce",
  "throttle_time:trailing",
  "buffer_with_time",
];
/// pipelines that need the worker thread (scheduler)
pub fn uses_scheduler(kind: usize) -> bool {
  kind % PIPES.len() >= 7
}

#[derive(Clone)]
pub struct World {
  pub hot: [Subj; 2],
  pub queue: Arc<TaskQueue>,
  pub log: TLog,
  pub subs: Arc<Mutex<Vec<Option<TSub>>>>,
  /// probe id of each entry of `subs`
  pub sub_probe: Arc<Mutex<Vec<usize>>>,
  pub next_probe: Arc<Mutex<usize>>,
  pub clock: Arc<std::sync::atomic::AtomicU64>,
  pub calls: Arc<Mutex<Vec<CallRec>>>,
  /// (time, probe, event) of every delivery
  pub deliveries: Arc<Mutex<Vec<(u64, usize, PEv)>>>,
  /// probes that were subscribed from inside a callback
  pub nested_probes: Arc<Mutex<Vec<usize>>>,
}

impl World {
  pub fn new() -> World {
    World {
      hot: [Subj::default(), Subj::default()],
      queue: Arc::new(TaskQueue::default()),
      log: Arc::new(Mutex::new(vec![])),
      subs: Arc::new(Mutex::new(vec![])),
      sub_probe: Arc::new(Mutex::new(vec![])),
      next_probe: Arc::new(Mutex::new(0)),
      clock: Arc::new(std::sync::atomic::AtomicU64::new(0)),
      calls: Arc::new(Mutex::new(vec![])),
      deliveries: Arc::new(Mutex::new(vec![])),
      nested_probes: Arc::new(Mutex::new(vec![])),
    }
  }

  pub fn pipe(&self, kind: usize) -> Pipe {
    let (a, b) = (self.hot[0].clone(), self.hot[1].clone());
    let sched = self.queue.spawner();
    match kind % PIPES.len() {
      9 => a.debounce(ticks(1), sched).box_it(),
      10 => a.throttle_time(ticks(1), rxrust::ops::throttle::ThrottleEdge::tailing(), sched).box_it(),
      11 => a.buffer_with_time(ticks(1), sched).map(|b: Vec<Item>| b.into_iter().sum::<Item>()).box_it(),
      0 => a.box_it(),
      1 => a.merge_threads(b).box_it(),
      2 => a.zip_threads(b).map(|(x, y): (Item, Item)| x * 1000 + y).box_it(),
      3 => a.combine_latest_threads(b, |x: Item, y: Item| (x, y)).map(|(x, y): (Item, Item)| x * 1000 + y).box_it(),
      4 => {
        let inner_hot = b;
        a.map(move |v: Item| -> Pipe {
          if v % 2 == 0 {
            inner_hot.clone().box_it()
          } else {
            observable::of_result::<Item, Er>(Ok(v)).box_it()
          }
        })
        .merge_all_threads(2)
        .box_it()
      }
      5 => a.take_until_threads(b).box_it(),
      6 => a.share_threads().box_it(),
      7 => a.observe_on_threads(sched).box_it(),
      8 => a.delay_threads(ticks(1), sched).box_it(),
      _ => unreachable!(),
    }
  }

  /// subscribe a fresh probe to `pipe`; returns the probe id
  pub fn subscribe(&self, pipe: Pipe) -> usize {
    let id = {
      let mut n = self.next_probe.lock().unwrap();
      *n += 1;
      *n - 1
    };
    self.subscribe_probe(pipe, id, false)
  }

  /// like `subscribe`, but the probe subscribes a further probe to input 0 from inside its first callback
  pub fn subscribe_nesting(&self, pipe: Pipe) -> usize {
    let id = {
      let mut n = self.next_probe.lock().unwrap();
      *n += 1;
      *n - 1
    };
    self.subscribe_probe(pipe, id, true)
  }

  fn subscribe_probe(&self, pipe: Pipe, id: usize, nesting: bool) -> usize {
    let p = TProbe {
      id,
      log: self.log.clone(),
      cut: None,
      after_cut: None,
      clock: Some(self.clock.clone()),
      deliveries: Some(self.deliveries.clone()),
      nest: if nesting { Some(self.clone()) } else { None },
    };
    let s = pipe.actual_subscribe(p);
    self.subs.lock().unwrap().push(Some(s));
    self.sub_probe.lock().unwrap().push(id);
    id
  }

  /// unsubscribe the k-th live subscription; returns the probe it belonged to
  pub fn unsubscribe(&self, k: usize) -> Option<usize> {
    let (s, probe) = {
      let mut g = self.subs.lock().unwrap();
      let live: Vec<usize> = g.iter().enumerate().filter(|(_, s)| s.is_some()).map(|(i, _)| i).collect();
      if live.is_empty() {
        (None, None)
      } else {
        let idx = live[k % live.len()];
        (g[idx].take(), Some(self.sub_probe.lock().unwrap()[idx]))
      }
    };
    if let Some(s) = s {
      s.unsubscribe();
    }
    probe
  }
  pub fn now(&self) -> u64 {
    self.clock.fetch_add(1, Ordering::SeqCst)
  }
}
