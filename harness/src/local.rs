//! local (single-thread) instantiation of the pipeline builder
#![allow(unused_macros, dead_code)]
use crate::ast::*;
use crate::common::*;
use crate::value::*;
use crate::vtime::{as_ticks, ticks, VSched};
use rxrust::ops::throttle::ThrottleEdge;
use rxrust::observer::{BoxObserver, BoxObserverThreads};
use rxrust::ops::box_it::{BoxOp, BoxOpThreads};
use rxrust::prelude::*;
use std::cell::RefCell;
use std::convert::Infallible;
use std::rc::Rc;

pub type Bx = BoxOp<'static, V, E>;
pub type Subj = Subject<'static, V, E>;
pub type BObs = BoxObserver<'static, V, E>;
pub type Subr = Subscriber<BObs>;
pub type BSub = BoxSubscription<'static>;
pub type MultiSub = MultiSubscription<'static>;
pub type BoxSub = BoxSubscription<'static>;
pub type CBx = rxrust::ops::box_it::CloneableBoxOp<'static, V, E>;
pub type Sh<T> = Rc<RefCell<T>>;
pub fn sh<T>(t: T) -> Sh<T> {
  Rc::new(RefCell::new(t))
}
pub const IS_THREADS: bool = false;
macro_rules! lock {
  ($e:expr) => {
    $e.borrow_mut()
  };
}
macro_rules! two {
  ($flag:expr, $l:expr, $t:expr) => {
    if $flag {
      bx($t)
    } else {
      bx($l)
    }
  };
}
macro_rules! sendonly {
  ($l:expr, $t:expr) => {
    $l
  };
}
macro_rules! two_c {
  ($flag:expr, $l:expr, $t:expr) => {
    if $flag {
      cbx($t)
    } else {
      cbx($l)
    }
  };
}
include!("build_body.rs");
