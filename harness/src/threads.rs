//! thread-safe instantiation of the pipeline builder (every operator, subject,
//! subscriber and box in its `_threads` / `Threads` form)
#![allow(unused_macros, dead_code)]
use crate::ast::*;
use crate::common::*;
use crate::value::*;
use crate::vtime::{as_ticks, ticks, VSched};
use rxrust::ops::throttle::ThrottleEdge;
use rxrust::observer::{BoxObserver, BoxObserverThreads};
use rxrust::ops::box_it::{BoxOp, BoxOpThreads};
use rxrust::prelude::*;
use std::convert::Infallible;
use std::sync::{Arc, Mutex};

pub type Bx = BoxOpThreads<V, E>;
pub type Subj = SubjectThreads<V, E>;
pub type BObs = BoxObserverThreads<V, E>;
pub type Subr = SubscriberThreads<BObs>;
pub type BSub = BoxSubscriptionThreads;
pub type MultiSub = MultiSubscriptionThreads;
pub type BoxSub = BoxSubscriptionThreads;
pub type CBx = rxrust::ops::box_it::CloneableBoxOpThreads<V, E>;
pub type Sh<T> = Arc<Mutex<T>>;
pub fn sh<T>(t: T) -> Sh<T> {
  Arc::new(Mutex::new(t))
}
pub const IS_THREADS: bool = true;
macro_rules! lock {
  ($e:expr) => {
    $e.lock().unwrap()
  };
}
macro_rules! two {
  ($flag:expr, $l:expr, $t:expr) => {
    bx($t)
  };
}
macro_rules! sendonly {
  ($l:expr, $t:expr) => {
    $t
  };
}
macro_rules! two_c {
  ($flag:expr, $l:expr, $t:expr) => {
    cbx($t)
  };
}
include!("build_body.rs");
