//! rxv: property-based testing / fuzzing harness for rxRust (see /verif/DESIGN.md)
#![allow(dead_code, unused_imports, unused_macros, clippy::all)]
pub mod ast;
pub mod choice;
pub mod common;
pub mod engine_t;
pub mod hooks;
pub mod local;
pub mod model;
pub mod props;
pub mod run;
pub mod stamp;
pub mod subj;
pub mod tworld;
pub mod threads;
pub mod value;
pub mod vtime;

pub mod fuzz;
