//! engine T: owned-schedule multi-thread executor (placeholder hooks; filled in later)
pub fn on_yield(_kind: u8, _addr: usize) {}
pub fn on_blocked(_addr: usize) {
  std::thread::yield_now();
}
