//! engine T: owned-schedule multi-thread executor.
//!
//! 2..3 real OS threads run per case but a controller lets exactly one run at a
//! time.  Every MutArc lock acquisition of a managed thread first reports a yield
//! point (verif_hooks); a lock that is held makes the thread report `blocked` and
//! hand the baton on.  A case's schedule is a list of preemptions
//! (global yield step k -> thread j); between preemptions the running thread keeps
//! the baton (so shrinking minimises the number of preemptions).  Deadlock (every
//! unfinished thread blocked without progress) and lost wake-ups (a thread parked
//! in the harness `block_on` that nobody can wake any more) are controller
//! verdicts, not hangs.
use crate::hooks::{self, ThreadMode};
use std::cell::RefCell;
use std::panic::{catch_unwind, resume_unwind, AssertUnwindSafe};
use std::sync::{Arc, Condvar, Mutex};

#[derive(Clone, Copy, Debug, PartialEq, Eq)]
enum TStatus {
  NotStarted,
  Runnable,
  Blocked(usize),
  /// parked in block_on, waiting for a wake
  Waiting,
  Finished,
}

#[derive(Clone, Debug, PartialEq, Eq)]
pub enum Verdict {
  Completed,
  Deadlock(String),
  LostWakeup(String),
  Panic(String),
  StepLimit,
}

struct State {
  current: Option<usize>,
  status: Vec<TStatus>,
  woken: Vec<bool>,
  step: u64,
  /// (step, thread): when the global yield counter reaches `step`, hand the baton to `thread`
  preemptions: Vec<(u64, usize)>,
  no_progress: usize,
  aborted: bool,
  verdict: Option<Verdict>,
  /// statistics
  yields: u64,
  preemptions_taken: u64,
  preempted_inside_call: u64,
  in_call: Vec<bool>,
  blocked_events: u64,
  lock_edges: Vec<(usize, usize)>,
  max_steps: u64,
}

pub struct Ctl {
  st: Mutex<State>,
  cv: Condvar,
}

struct AbortCase;

thread_local! {
  static ME: RefCell<Option<(Arc<Ctl>, usize)>> = RefCell::new(None);
}

fn me() -> Option<(Arc<Ctl>, usize)> {
  ME.with(|m| m.borrow().clone())
}

impl Ctl {
  fn pick_next(st: &State, after: usize) -> Option<usize> {
    let n = st.status.len();
    (1..=n).map(|d| (after + d) % n).find(|i| matches!(st.status[*i], TStatus::Runnable | TStatus::NotStarted | TStatus::Blocked(_)))
  }

  /// wait until it is `tid`'s turn (or the case is aborted)
  fn wait_turn(&self, mut g: std::sync::MutexGuard<'_, State>, tid: usize) {
    loop {
      if g.aborted {
        drop(g);
        if std::thread::panicking() {
          return;
        }
        resume_unwind(Box::new(AbortCase));
      }
      if g.current == Some(tid) {
        return;
      }
      g = self.cv.wait(g).unwrap();
    }
  }

  fn abort(&self, g: &mut State, v: Verdict) {
    if g.verdict.is_none() {
      g.verdict = Some(v);
    }
    g.aborted = true;
    g.current = None;
    self.cv.notify_all();
  }

  /// hand the baton to `to`
  fn switch_to(&self, g: &mut State, to: usize) {
    g.current = Some(to);
    if matches!(g.status[to], TStatus::NotStarted) {
      g.status[to] = TStatus::Runnable;
    }
    self.cv.notify_all();
  }
}

/// hook: a managed thread is about to take a MutArc lock (or reached an explicit yield)
pub fn on_yield(_kind: u8, _addr: usize) {
  if std::thread::panicking() {
    return;
  }
  let Some((ctl, tid)) = me() else { return };
  let mut g = ctl.st.lock().unwrap();
  if g.aborted {
    drop(g);
    resume_unwind(Box::new(AbortCase));
  }
  g.step += 1;
  g.yields += 1;
  g.no_progress = 0;
  if matches!(g.status[tid], TStatus::Blocked(_)) {
    g.status[tid] = TStatus::Runnable;
  }
  if g.step > g.max_steps {
    ctl.abort(&mut g, Verdict::StepLimit);
    drop(g);
    resume_unwind(Box::new(AbortCase));
  }
  let step = g.step;
  if let Some(pos) = g.preemptions.iter().position(|(s, _)| *s == step) {
    let (_, to) = g.preemptions[pos];
    let n = g.status.len();
    let to = to % n;
    if to != tid && matches!(g.status[to], TStatus::Runnable | TStatus::NotStarted | TStatus::Blocked(_)) {
      g.preemptions_taken += 1;
      if g.in_call[tid] {
        g.preempted_inside_call += 1;
      }
      ctl.switch_to(&mut g, to);
      ctl.wait_turn(g, tid);
      return;
    }
  }
}

/// hook: the lock at `addr` is held by somebody else
pub fn on_blocked(addr: usize) {
  if std::thread::panicking() {
    std::thread::yield_now();
    return;
  }
  let Some((ctl, tid)) = me() else {
    std::thread::yield_now();
    return;
  };
  let mut g = ctl.st.lock().unwrap();
  if g.aborted {
    drop(g);
    resume_unwind(Box::new(AbortCase));
  }
  g.blocked_events += 1;
  g.status[tid] = TStatus::Blocked(addr);
  g.no_progress += 1;
  let n = g.status.len();
  if g.no_progress > 2 * n + 2 {
    let who: Vec<String> = g.status.iter().enumerate().map(|(i, s)| format!("t{i}:{s:?}")).collect();
    ctl.abort(&mut g, Verdict::Deadlock(who.join(" ")));
    drop(g);
    resume_unwind(Box::new(AbortCase));
  }
  match Ctl::pick_next(&g, tid) {
    Some(to) if to != tid => {
      ctl.switch_to(&mut g, to);
      ctl.wait_turn(g, tid);
    }
    _ => {
      // nobody else can run: the lock can never be released
      let who: Vec<String> = g.status.iter().enumerate().map(|(i, s)| format!("t{i}:{s:?}")).collect();
      ctl.abort(&mut g, Verdict::Deadlock(who.join(" ")));
      drop(g);
      resume_unwind(Box::new(AbortCase));
    }
  }
}

/// explicit yield point inside harness code (probe callbacks)
pub fn explicit_yield() {
  if hooks::mode() == ThreadMode::Controlled {
    on_yield(9, 0);
  }
}

/// mark the beginning / end of an API call made by the script (for the non-trivial rule)
pub fn call_begin() {
  if let Some((ctl, tid)) = me() {
    ctl.st.lock().unwrap().in_call[tid] = true;
  }
}
pub fn call_end() {
  if let Some((ctl, tid)) = me() {
    ctl.st.lock().unwrap().in_call[tid] = false;
  }
}

/// wake a thread parked in `block_on`
pub fn wake_thread(ctl: &Arc<Ctl>, tid: usize) {
  let mut g = ctl.st.lock().unwrap();
  g.woken[tid] = true;
  if g.status[tid] == TStatus::Waiting {
    g.status[tid] = TStatus::Runnable;
  }
}

/// harness block_on for managed threads: polls `f`; when Pending the thread is
/// parked as a controller state until its waker fires
pub fn block_on<F: std::future::Future>(f: F) -> F::Output {
  use futures::task::{waker, ArcWake};
  struct W(Arc<Ctl>, usize);
  impl ArcWake for W {
    fn wake_by_ref(a: &Arc<Self>) {
      wake_thread(&a.0, a.1);
      // a wake-up is a scheduling point: the woken thread may run before the waker's next statement
      on_yield(9, 0);
    }
  }
  let (ctl, tid) = me().expect("block_on outside a managed thread");
  let wk = waker(Arc::new(W(ctl.clone(), tid)));
  let mut cx = std::task::Context::from_waker(&wk);
  let mut f = Box::pin(f);
  loop {
    {
      ctl.st.lock().unwrap().woken[tid] = false;
    }
    if let std::task::Poll::Ready(v) = f.as_mut().poll(&mut cx) {
      return v;
    }
    let mut g = ctl.st.lock().unwrap();
    if g.aborted {
      drop(g);
      resume_unwind(Box::new(AbortCase));
    }
    if g.woken[tid] {
      continue; // woken between the poll and now
    }
    g.status[tid] = TStatus::Waiting;
    match Ctl::pick_next(&g, tid) {
      Some(to) if to != tid => {
        ctl.switch_to(&mut g, to);
        ctl.wait_turn(g, tid);
      }
      _ => {
        ctl.abort(&mut g, Verdict::LostWakeup(format!("thread {tid} waits for a wake-up that no other thread can deliver any more")));
        drop(g);
        resume_unwind(Box::new(AbortCase));
      }
    }
  }
}

// a small pool of persistent executor threads per driver thread (spawning three OS
// threads per case makes the kernel's address-space lock the bottleneck)
struct Exec {
  tx: std::sync::mpsc::Sender<Box<dyn FnOnce() + Send>>,
  done: std::sync::mpsc::Receiver<()>,
}
thread_local! { static POOL: RefCell<Vec<Exec>> = RefCell::new(vec![]); }

fn run_on_pool(jobs: Vec<Box<dyn FnOnce() + Send>>) {
  POOL.with(|p| {
    let mut p = p.borrow_mut();
    while p.len() < jobs.len() {
      let (tx, rx) = std::sync::mpsc::channel::<Box<dyn FnOnce() + Send>>();
      let (dtx, drx) = std::sync::mpsc::channel::<()>();
      std::thread::Builder::new()
        .stack_size(1 << 20)
        .spawn(move || {
          while let Ok(job) = rx.recv() {
            let _ = catch_unwind(AssertUnwindSafe(job));
            if dtx.send(()).is_err() {
              break;
            }
          }
        })
        .expect("cannot spawn executor thread");
      p.push(Exec { tx, done: drx });
    }
    let n = jobs.len();
    for (i, j) in jobs.into_iter().enumerate() {
      p[i].tx.send(j).expect("executor thread gone");
    }
    for e in p.iter().take(n) {
      let _ = e.done.recv();
    }
  });
}

pub struct RunStats {
  pub verdict: Verdict,
  pub yields: u64,
  pub preemptions_taken: u64,
  pub preempted_inside_call: u64,
  pub blocked_events: u64,
}

/// run the thread bodies under the schedule; each body runs on its own OS thread
pub fn run_threads(bodies: Vec<Box<dyn FnOnce() + Send>>, preemptions: Vec<(u64, usize)>, max_steps: u64) -> RunStats {
  let n = bodies.len();
  let ctl = Arc::new(Ctl {
    st: Mutex::new(State {
      current: Some(0),
      status: vec![TStatus::NotStarted; n],
      woken: vec![false; n],
      step: 0,
      preemptions,
      no_progress: 0,
      aborted: false,
      verdict: None,
      yields: 0,
      preemptions_taken: 0,
      preempted_inside_call: 0,
      in_call: vec![false; n],
      blocked_events: 0,
      lock_edges: vec![],
      max_steps,
    }),
    cv: Condvar::new(),
  });
  ctl.st.lock().unwrap().status[0] = TStatus::Runnable;
  let shared_clock = crate::vtime::clock();
  let jobs: Vec<Box<dyn FnOnce() + Send>> = bodies
    .into_iter()
    .enumerate()
    .map(|(tid, body)| {
      let ctl = ctl.clone();
      let clk = shared_clock.clone();
      let job: Box<dyn FnOnce() + Send> = Box::new(move || {
        ME.with(|m| *m.borrow_mut() = Some((ctl.clone(), tid)));
        hooks::set_mode(ThreadMode::Controlled);
        crate::vtime::set_clock(clk);
        let r = catch_unwind(AssertUnwindSafe(|| {
          {
            let g = ctl.st.lock().unwrap();
            ctl.wait_turn(g, tid);
          }
          body();
        }));
        hooks::set_mode(ThreadMode::Unmanaged);
        // hand the baton on
        let mut g = ctl.st.lock().unwrap();
        g.status[tid] = TStatus::Finished;
        g.no_progress = 0;
        if let Err(p) = r {
          if p.downcast_ref::<AbortCase>().is_none() {
            let msg = p.downcast_ref::<&str>().map(|s| s.to_string()).or_else(|| p.downcast_ref::<String>().cloned()).unwrap_or_else(|| "<panic>".into());
            let v = if msg.contains(crate::hooks::SELF_DEADLOCK) { Verdict::Deadlock(msg) } else { Verdict::Panic(msg) };
            ctl.abort(&mut g, v);
          }
        }
        if !g.aborted {
          match Ctl::pick_next(&g, tid) {
            Some(to) => ctl.switch_to(&mut g, to),
            None => {
              if let Some(w) = g.status.iter().position(|s| *s == TStatus::Waiting) {
                ctl.abort(&mut g, Verdict::LostWakeup(format!("thread {w} is still waiting for a wake-up after every other thread has finished")));
              } else {
                g.current = None;
                ctl.cv.notify_all();
              }
            }
          }
        }
        drop(g);
        ME.with(|m| *m.borrow_mut() = None);
      });
      job
    })
    .collect();
  run_on_pool(jobs);
  let g = ctl.st.lock().unwrap();
  RunStats {
    verdict: g.verdict.clone().unwrap_or(Verdict::Completed),
    yields: g.yields,
    preemptions_taken: g.preemptions_taken,
    preempted_inside_call: g.preempted_inside_call,
    blocked_events: g.blocked_events,
  }
}
