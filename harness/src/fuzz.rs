//! entry point shared by the libFuzzer target (/verif/fuzz) and the replay of its artifacts
use crate::choice::{Bytes, Choices};
use crate::run::{self, Ctx, Tier, Verdict};
use once_cell::sync::OnceCell;

struct FuzzState {
  prop: crate::run::Prop,
  parts: Vec<usize>,
  known: Vec<String>,
}
static STATE: OnceCell<FuzzState> = OnceCell::new();

fn state() -> &'static FuzzState {
  STATE.get_or_init(|| {
    run::install_panic_hook();
    crate::vtime::install();
    crate::hooks::install();
    let id = std::env::var("RXV_FUZZ_PROP").unwrap_or_else(|_| "C03".into());
    let prop = crate::props::all().into_iter().find(|p| p.id == id).expect("unknown property in RXV_FUZZ_PROP");
    // engine-T parts spawn threads per case and enumerations are not tape driven: keep the cheap single-thread parts
    let parts: Vec<usize> = prop
      .parts
      .iter()
      .enumerate()
      .filter(|(_, p)| !matches!(p.name, "threads" | "random-schedules" | "exhaustive" | "every-cut"))
      .map(|(i, _)| i)
      .collect();
    // known findings that are listed as "known" are tolerated in-target (the plain check decides whether they still reproduce)
    let known = run::load_known().into_iter().filter(|k| k.property == id && k.status == "known").map(|k| k.signature).collect();
    FuzzState { prop, parts, known }
  })
}

/// decode the bytes through the property's generator and run its oracle;
/// Some((part, picks, signature, detail)) on a violation that is not a listed known finding
pub fn run_bytes(data: &[u8]) -> Option<(usize, Vec<u32>, String, String)> {
  let st = state();
  if data.is_empty() || st.parts.is_empty() {
    return None;
  }
  let part = st.parts[data[0] as usize % st.parts.len()];
  let ctx = Ctx { tier: Tier::Thorough, want_desc: false, active_known: st.known.clone(), part };
  let mut c = Bytes::new(&data[1..]);
  if crate::hooks::mode() == crate::hooks::ThreadMode::Unmanaged {
    crate::hooks::set_mode(crate::hooks::ThreadMode::Solo);
  }
  crate::vtime::set_unit(1);
  let o = match run::guarded(|| (st.prop.parts[part].run)(&mut c, &ctx)) {
    Ok(o) => o,
    Err(m) => return Some((part, c.record().to_vec(), "harness-panic".into(), m)),
  };
  match o.verdict {
    Verdict::Violation { sig, detail } if !st.known.contains(&sig) => Some((part, c.record().to_vec(), sig, detail)),
    _ => None,
  }
}

/// libFuzzer entry: a violation aborts the process (after saving an ordinary replay file)
pub fn fuzz_one(data: &[u8]) {
  if let Some((part, picks, sig, detail)) = run_bytes(data) {
    let st = state();
    let dir = run::out_dir().join("replays");
    let _ = std::fs::create_dir_all(&dir);
    let path = dir.join(format!("{}-fuzz-{:016x}.json", st.prop.id, run::hash_of(&(part, &picks))));
    let j = serde_json::json!({"property": st.prop.id, "part": part, "part_name": st.prop.parts[part].name, "picks": picks, "signature": sig, "detail": detail, "found_by": "libFuzzer"});
    let _ = std::fs::write(&path, serde_json::to_string_pretty(&j).unwrap());
    eprintln!("FUZZ-VIOLATION property={} replay={} signature={}", st.prop.id, path.display(), sig);
    std::process::abort();
  }
}
