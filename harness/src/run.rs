//! Drivers (random+shrink via proptest, bounded-exhaustive, replay), evidence,
//! known findings, exit codes.
use crate::choice::{Choices, Fixed, Odometer, Tape};
use proptest::collection::vec as pvec;
use proptest::prelude::*;
use proptest::test_runner::{Config, RngAlgorithm, TestCaseError, TestError, TestRng, TestRunner};
use serde_json::{json, Value as J};
use std::cell::RefCell;
use std::collections::{BTreeMap, HashSet};
use std::panic::{catch_unwind, AssertUnwindSafe};
use std::sync::atomic::{AtomicBool, AtomicU64, Ordering};
use std::sync::{Arc, Mutex};
use std::time::Instant;

#[derive(Clone, Copy, Debug, PartialEq, Eq)]
pub enum Tier {
  Quick,
  Thorough,
}

#[derive(Clone, Debug)]
pub enum Verdict {
  Ok,
  /// the generated case is outside the property's domain (counted, not checked)
  Discard,
  Violation { sig: String, detail: String },
}

pub struct Outcome {
  pub verdict: Verdict,
  pub nontrivial: bool,
  pub hash: u64,
  pub labels: Vec<&'static str>,
  /// free-form counters (e.g. panic messages), histogrammed in evidence
  pub notes: Vec<String>,
  /// decoded case (only filled when asked for, or on violation)
  pub desc: Option<J>,
}

impl Outcome {
  pub fn discard() -> Outcome {
    Outcome { verdict: Verdict::Discard, nontrivial: false, hash: 0, labels: vec!["discard"], notes: vec![], desc: None }
  }
}

pub struct Ctx {
  pub tier: Tier,
  pub want_desc: bool,
  /// signatures of known findings that still reproduce (generators exclude their sub-domain)
  pub active_known: Vec<String>,
  /// which sub-generator to use (a property may have several engines / parts)
  pub part: usize,
}
impl Ctx {
  pub fn known(&self, sig: &str) -> bool {
    self.active_known.iter().any(|s| s == sig)
  }
}

pub type CaseFn = fn(&mut dyn Choices, &Ctx) -> Outcome;

/// one generated sub-space of a property
pub struct Part {
  pub name: &'static str,
  pub run: CaseFn,
  pub tape_len: usize,
  pub quick_cases: u64,
  pub thorough_cases: u64,
  /// bounded-exhaustive enumeration (thorough tier, and quick when `exh_quick`): max depth of the choice tree
  pub exhaustive_depth: Option<usize>,
  pub exhaustive_budget: u64,
  pub exh_quick: bool,
}

pub struct Prop {
  pub id: &'static str,
  pub rule: &'static str,
  pub assumptions: &'static [&'static str],
  pub parts: Vec<Part>,
}

// ------------------------------------------------------------ panics -------

thread_local! {
  static LAST_PANIC: RefCell<Option<String>> = RefCell::new(None);
  static PANICS: std::cell::Cell<u32> = std::cell::Cell::new(0);
}

pub fn install_panic_hook() {
  let verbose = std::env::var("RXV_VERBOSE").is_ok();
  std::panic::set_hook(Box::new(move |info| {
    let msg = if let Some(s) = info.payload().downcast_ref::<&str>() {
      s.to_string()
    } else if let Some(s) = info.payload().downcast_ref::<String>() {
      s.clone()
    } else {
      "<non-string panic>".to_string()
    };
    let loc = info.location().map(|l| format!("{}:{}", l.file(), l.line())).unwrap_or_default();
    if verbose {
      eprintln!("panic: {msg} at {loc}\n{}", std::backtrace::Backtrace::force_capture());
    }
    PANICS.with(|c| c.set(c.get() + 1));
    LAST_PANIC.with(|p| {
      let mut p = p.borrow_mut();
      if p.is_none() {
        *p = Some(format!("{msg} @ {loc}")); // keep the first panic of the case
      }
    });
  }));
}

/// run `f`, turning a panic into Err(message of the first panic)
pub fn guarded<T>(f: impl FnOnce() -> T) -> Result<T, String> {
  LAST_PANIC.with(|p| *p.borrow_mut() = None);
  PANICS.with(|c| c.set(0));
  match catch_unwind(AssertUnwindSafe(f)) {
    Ok(v) => Ok(v),
    Err(_) => Err(LAST_PANIC.with(|p| p.borrow_mut().take()).unwrap_or_else(|| "<panic>".into())),
  }
}

/// run clean-up code whose panics are nobody's verdict (everything observable was recorded before): panics are caught and
/// the swallowed-panic counter is put back
pub fn ignoring_panics(f: impl FnOnce()) {
  let before = PANICS.with(|c| c.get());
  let last = LAST_PANIC.with(|p| p.borrow_mut().take());
  let _ = std::panic::catch_unwind(std::panic::AssertUnwindSafe(f));
  PANICS.with(|c| c.set(before));
  LAST_PANIC.with(|p| *p.borrow_mut() = last);
}

/// like `guarded`, but a panic that the library swallowed (scheduled tasks run
/// under catch_unwind) also counts
pub fn guarded_strict<T>(f: impl FnOnce() -> T) -> Result<T, String> {
  let r = guarded(f);
  match r {
    Ok(v) => {
      if PANICS.with(|c| c.get()) > 0 {
        Err(format!("{} (swallowed inside a scheduled task)", LAST_PANIC.with(|p| p.borrow_mut().take()).unwrap_or_default()))
      } else {
        Ok(v)
      }
    }
    e => e,
  }
}

/// message with addresses / numbers removed, so that panics can be histogrammed
pub fn panic_class(m: &str) -> String {
  let mut s: String = m.chars().map(|c| if c.is_ascii_digit() { '#' } else { c }).collect();
  while s.contains("##") {
    s = s.replace("##", "#");
  }
  s.chars().take(110).collect()
}

// ------------------------------------------------------------ stats --------

#[derive(Default)]
pub struct Stats {
  pub evaluations: u64,
  pub discards: u64,
  pub nontrivial: HashSet<u64>,
  pub labels: BTreeMap<&'static str, u64>,
  pub notes: BTreeMap<String, u64>,
  pub samples: Vec<J>,
  pub excluded_known: u64,
}
impl Stats {
  fn merge(&mut self, o: Stats) {
    self.evaluations += o.evaluations;
    self.discards += o.discards;
    self.nontrivial.extend(o.nontrivial);
    for (k, v) in o.labels {
      *self.labels.entry(k).or_insert(0) += v;
    }
    for (k, v) in o.notes {
      *self.notes.entry(k).or_insert(0) += v;
    }
    for s in o.samples {
      if self.samples.len() < 6 {
        self.samples.push(s);
      }
    }
    self.excluded_known += o.excluded_known;
  }
  fn note(&mut self, o: &Outcome) {
    self.evaluations += 1;
    if matches!(o.verdict, Verdict::Discard) {
      self.discards += 1;
    }
    if o.nontrivial {
      self.nontrivial.insert(o.hash);
    }
    for l in &o.labels {
      *self.labels.entry(l).or_insert(0) += 1;
      if *l == "excluded-known" {
        self.excluded_known += 1;
      }
    }
    for n in &o.notes {
      *self.notes.entry(n.clone()).or_insert(0) += 1;
    }
  }
}

#[derive(Clone, Debug)]
pub struct Failure {
  pub part: usize,
  pub picks: Vec<u32>,
  pub sig: String,
  pub detail: String,
  pub desc: J,
}

static HEARTBEAT: AtomicU64 = AtomicU64::new(0);
pub fn beat() {
  HEARTBEAT.fetch_add(1, Ordering::Relaxed);
}

/// tapes of the cases the workers are running right now (one slot per worker thread, each behind its own lock), so that
/// the watchdog can save what a stuck worker was doing
type Slot = std::sync::Arc<std::sync::Mutex<Option<(usize, Vec<u32>)>>>;
static INFLIGHT: once_cell::sync::Lazy<std::sync::Mutex<Vec<Slot>>> = once_cell::sync::Lazy::new(|| std::sync::Mutex::new(Vec::new()));
fn new_slot() -> Slot {
  let s: Slot = Default::default();
  INFLIGHT.lock().unwrap().push(s.clone());
  s
}

fn start_watchdog(id: &'static str) {
  std::thread::spawn(move || {
    let mut last = HEARTBEAT.load(Ordering::Relaxed);
    let mut idle = 0;
    loop {
      std::thread::sleep(std::time::Duration::from_secs(5));
      let cur = HEARTBEAT.load(Ordering::Relaxed);
      if cur == last {
        idle += 5;
        if idle >= 180 {
          println!("INCONCLUSIVE property={id} watchdog: no case finished for {idle}s");
          // save the tapes of the cases that are still running (replay: ./check <id> --replay <file>)
          let dir = out_dir().join("replays");
          let _ = std::fs::create_dir_all(&dir);
          for (w, slot) in INFLIGHT.lock().unwrap().iter().enumerate() {
            if let Ok(g) = slot.try_lock() {
              if let Some((part, words)) = &*g {
                let p = dir.join(format!("{id}-stuck-{w}.json"));
                let j = serde_json::json!({"property": id, "part": part, "words": words, "note": "raw tape of a case that had not finished when the watchdog fired"});
                let _ = std::fs::write(&p, serde_json::to_string_pretty(&j).unwrap());
                println!("  stuck case saved: {}", p.display());
              }
            }
          }
          std::process::exit(2);
        }
      } else {
        idle = 0;
        last = cur;
      }
    }
  });
}

fn slow_threshold() -> Option<u64> {
  static T: once_cell::sync::OnceCell<Option<u64>> = once_cell::sync::OnceCell::new();
  *T.get_or_init(|| std::env::var("RXV_SLOW").ok().and_then(|s| s.parse().ok()))
}

fn run_one(run: CaseFn, c: &mut dyn Choices, ctx: &Ctx) -> Outcome {
  beat();
  crate::vtime::set_unit(1);
  // single-thread engines: a re-lock of a held MutArc is a self-deadlock verdict, not a hang
  if crate::hooks::mode() == crate::hooks::ThreadMode::Unmanaged {
    crate::hooks::set_mode(crate::hooks::ThreadMode::Solo);
  }
  let t0 = Instant::now();
  let r = guarded(|| run(c, ctx));
  if let Some(ms) = slow_threshold() {
    if t0.elapsed().as_millis() as u64 >= ms {
      eprintln!("SLOW case {} ms picks={:?}", t0.elapsed().as_millis(), c.record());
    }
  }
  match r {
    Ok(o) => o,
    Err(msg) => Outcome {
      verdict: Verdict::Violation { sig: "harness-panic".into(), detail: format!("uncaught panic in case runner: {msg}") },
      nontrivial: false,
      hash: 0,
      labels: vec!["harness-panic"],
      notes: vec![],
      desc: Some(json!({"picks": c.record()})),
    },
  }
}

fn seed_bytes(seed: u64, part: usize, worker: usize) -> [u8; 32] {
  let mut b = [0u8; 32];
  b[..8].copy_from_slice(&seed.to_le_bytes());
  b[8..16].copy_from_slice(&(part as u64).to_le_bytes());
  b[16..24].copy_from_slice(&(worker as u64).to_le_bytes());
  b[24..32].copy_from_slice(&0x9e3779b97f4a7c15u64.to_le_bytes());
  b
}

struct ClearSlot<'a>(&'a Slot);
impl Drop for ClearSlot<'_> {
  fn drop(&mut self) {
    if let Ok(mut g) = self.0.lock() {
      *g = None;
    }
  }
}

fn random_part(prop: &Prop, pi: usize, cases: u64, seed: u64, tier: Tier, known: &[String], workers: usize) -> (Stats, Option<Failure>) {
  let part = &prop.parts[pi];
  let per = (cases + workers as u64 - 1) / workers as u64;
  let results: Vec<(Stats, Option<Failure>)> = std::thread::scope(|sc| {
    let hs: Vec<_> = (0..workers)
      .map(|w| {
        let known = known.to_vec();
        sc.spawn(move || {
          let ctx = Ctx { tier, want_desc: false, active_known: known.clone(), part: pi };
          let ctx_desc = Ctx { tier, want_desc: true, active_known: known, part: pi };
          let stats = RefCell::new(Stats::default());
          let failed = AtomicBool::new(false);
          let cfg = Config {
            cases: per as u32,
            failure_persistence: None,
            max_shrink_iters: 20_000,
            max_global_rejects: 1_000_000,
            ..Config::default()
          };
          let mut runner = TestRunner::new_with_rng(cfg, TestRng::from_seed(RngAlgorithm::ChaCha, &seed_bytes(seed, pi, w)));
          let strat = pvec(any::<u32>(), 0..=part.tape_len);
          let slot = new_slot();
          let res = runner.run(&strat, |tape| {
            *slot.lock().unwrap() = Some((pi, tape.clone()));
            let _clear = ClearSlot(&slot);
            let mut c = Tape::new(&tape);
            let counting = !failed.load(Ordering::Relaxed);
            let sample_now = counting && {
              let st = stats.borrow();
              st.samples.len() < 4 && st.evaluations % 97 == 0
            };
            let o = run_one(part.run, &mut c, if sample_now { &ctx_desc } else { &ctx });
            if counting {
              let mut st = stats.borrow_mut();
              st.note(&o);
              if sample_now && o.nontrivial {
                if let Some(d) = &o.desc {
                  st.samples.push(d.clone());
                }
              }
            }
            match o.verdict {
              Verdict::Violation { sig, .. } => {
                if ctx.known(&sig) {
                  if counting {
                    stats.borrow_mut().excluded_known += 1;
                  }
                  Ok(())
                } else {
                  failed.store(true, Ordering::Relaxed);
                  Err(TestCaseError::fail(sig))
                }
              }
              _ => Ok(()),
            }
          });
          let failure = match res {
            Ok(()) => None,
            Err(TestError::Fail(_, tape)) => {
              let mut c = Tape::new(&tape);
              let o = run_one(part.run, &mut c, &ctx_desc);
              let picks = c.record().to_vec();
              match o.verdict {
                Verdict::Violation { sig, detail } => Some(Failure { part: pi, picks, sig, detail, desc: o.desc.unwrap_or(J::Null) }),
                _ => Some(Failure {
                  part: pi,
                  picks,
                  sig: "non-deterministic".into(),
                  detail: "shrunk case no longer fails when re-run".into(),
                  desc: J::Null,
                }),
              }
            }
            Err(TestError::Abort(r)) => Some(Failure { part: pi, picks: vec![], sig: "aborted".into(), detail: format!("{r}"), desc: J::Null }),
          };
          (stats.into_inner(), failure)
        })
      })
      .collect();
    hs.into_iter().map(|h| h.join().expect("worker thread panicked")).collect()
  });
  let mut total = Stats::default();
  let mut fail = None;
  for (s, f) in results {
    total.merge(s);
    if fail.is_none() {
      fail = f; // lowest-numbered failing worker
    }
  }
  (total, fail)
}

/// Large random parts run in child processes of at most CHUNK cases each (same binary, `--chunk`): whatever the code
/// under test leaks - rxRust keeps a reference cycle alive when a flattening operator is dropped with inner observables
/// still queued, about 2 KB per C05 case, 40 GB over a thorough run - is given back when the chunk ends. Chunk k uses
/// the seed `seed * 1000003 + k + 1`, so a run is still a function of the code and VERIF_SEED.
const CHUNK: u64 = 3_000_000;
fn random_part_chunked(prop: &Prop, pi: usize, cases: u64, seed: u64, tier: Tier, known: &[String], workers: usize) -> (Stats, Option<Failure>) {
  if cases <= CHUNK || std::env::var("RXV_NO_CHUNK").is_ok() {
    return random_part(prop, pi, cases, seed, tier, known, workers);
  }
  let exe = match std::env::current_exe() {
    Ok(e) => e,
    Err(_) => return random_part(prop, pi, cases, seed, tier, known, workers),
  };
  let n = (cases + CHUNK - 1) / CHUNK;
  let mut total = Stats::default();
  for k in 0..n {
    let this = if k + 1 == n { cases - CHUNK * (n - 1) } else { CHUNK };
    let file = std::env::temp_dir().join(format!("rxv-chunk-{}-{}-{}-{}.json", std::process::id(), prop.id, pi, k));
    let child = std::process::Command::new(&exe)
      .args([prop.id, "--chunk", &pi.to_string(), &(seed.wrapping_mul(1_000_003).wrapping_add(k + 1)).to_string(), &this.to_string(), &file.to_string_lossy()])
      .env("RXV_CHUNK_KNOWN", known.join("\u{1f}"))
      .env("RXV_CHUNK_TIER", if tier == Tier::Thorough { "thorough" } else { "quick" })
      .stdout(std::process::Stdio::inherit())
      .spawn();
    let Ok(mut child) = child else {
      println!("INCONCLUSIVE property={} cannot start a chunk process", prop.id);
      std::process::exit(2);
    };
    let status = loop {
      match child.try_wait() {
        Ok(Some(st)) => break st,
        Ok(None) => {
          beat(); // the child has its own watchdog
          std::thread::sleep(std::time::Duration::from_millis(200));
        }
        Err(_) => {
          println!("INCONCLUSIVE property={} lost a chunk process", prop.id);
          std::process::exit(2);
        }
      }
    };
    let parsed = std::fs::read_to_string(&file).ok().and_then(|t| serde_json::from_str::<J>(&t).ok());
    let _ = std::fs::remove_file(&file);
    let Some(j) = parsed else {
      println!("INCONCLUSIVE property={} chunk {k} of part {} ended without a result (status {status})", prop.id, prop.parts[pi].name);
      std::process::exit(2);
    };
    let (st, fail) = stats_from_json(&j);
    total.merge(st);
    if fail.is_some() {
      return (total, fail);
    }
  }
  (total, None)
}

fn stats_to_json(st: &Stats, fail: &Option<Failure>) -> J {
  json!({
    "evaluations": st.evaluations, "discards": st.discards, "excluded_known": st.excluded_known,
    "nontrivial": st.nontrivial.iter().collect::<Vec<_>>(),
    "labels": st.labels.iter().map(|(k, v)| (k.to_string(), *v)).collect::<BTreeMap<String, u64>>(),
    "notes": st.notes, "samples": st.samples,
    "failure": fail.as_ref().map(|f| json!({"part": f.part, "picks": f.picks, "sig": f.sig, "detail": f.detail, "desc": f.desc})),
  })
}
fn stats_from_json(j: &J) -> (Stats, Option<Failure>) {
  let mut st = Stats::default();
  st.evaluations = j["evaluations"].as_u64().unwrap_or(0);
  st.discards = j["discards"].as_u64().unwrap_or(0);
  st.excluded_known = j["excluded_known"].as_u64().unwrap_or(0);
  if let Some(a) = j["nontrivial"].as_array() {
    st.nontrivial = a.iter().filter_map(|x| x.as_u64()).collect();
  }
  if let Some(m) = j["labels"].as_object() {
    for (k, v) in m {
      // label names are a small fixed set: leaking one copy of each per process is harmless
      let k: &'static str = Box::leak(k.clone().into_boxed_str());
      st.labels.insert(k, v.as_u64().unwrap_or(0));
    }
  }
  if let Some(m) = j["notes"].as_object() {
    for (k, v) in m {
      st.notes.insert(k.clone(), v.as_u64().unwrap_or(0));
    }
  }
  if let Some(a) = j["samples"].as_array() {
    st.samples = a.clone();
  }
  let f = &j["failure"];
  let fail = if f.is_null() {
    None
  } else {
    Some(Failure {
      part: f["part"].as_u64().unwrap_or(0) as usize,
      picks: f["picks"].as_array().map(|a| a.iter().map(|x| x.as_u64().unwrap_or(0) as u32).collect()).unwrap_or_default(),
      sig: f["sig"].as_str().unwrap_or("").to_string(),
      detail: f["detail"].as_str().unwrap_or("").to_string(),
      desc: f["desc"].clone(),
    })
  };
  (st, fail)
}

/// child side of `random_part_chunked`
pub fn chunk_main(prop: &Prop, pi: usize, seed: u64, cases: u64, file: &str) -> i32 {
  start_watchdog(prop.id);
  let workers: usize = std::env::var("RXV_WORKERS").ok().and_then(|s| s.parse().ok()).unwrap_or(14);
  let known: Vec<String> = std::env::var("RXV_CHUNK_KNOWN").ok().map(|s| s.split('\u{1f}').filter(|x| !x.is_empty()).map(|x| x.to_string()).collect()).unwrap_or_default();
  let tier = if std::env::var("RXV_CHUNK_TIER").as_deref() == Ok("quick") { Tier::Quick } else { Tier::Thorough };
  let (st, fail) = random_part(prop, pi.min(prop.parts.len() - 1), cases, seed, tier, &known, workers);
  match std::fs::write(file, serde_json::to_string(&stats_to_json(&st, &fail)).unwrap()) {
    Ok(()) => 0,
    Err(_) => 2,
  }
}

/// depth-first enumeration of the whole choice tree below `depth` picks
fn exhaustive_part(prop: &Prop, pi: usize, depth: usize, budget: u64, tier: Tier, known: &[String], workers: usize) -> (Stats, Option<Failure>, bool) {
  let part = &prop.parts[pi];
  // discover the arity of the first pick
  let arity0 = {
    struct Probe0(usize, Vec<u32>);
    impl Choices for Probe0 {
      fn pick(&mut self, n: usize) -> usize {
        if self.0 == 0 {
          self.0 = n;
        }
        self.1.push(0);
        0
      }
      fn record(&self) -> &[u32] {
        &self.1
      }
    }
    let mut p = Probe0(0, vec![]);
    let ctx = Ctx { tier, want_desc: false, active_known: known.to_vec(), part: pi };
    let _ = run_one(part.run, &mut p, &ctx);
    p.0.max(1)
  };
  let next_first = Arc::new(Mutex::new(0usize));
  let per_budget = budget; // global budget shared through the counter below
  let count = Arc::new(AtomicU64::new(0));
  let results: Vec<(Stats, Option<Failure>, bool)> = std::thread::scope(|sc| {
    let hs: Vec<_> = (0..workers.min(arity0))
      .map(|_| {
        let known = known.to_vec();
        let next_first = next_first.clone();
        let count = count.clone();
        sc.spawn(move || {
          let ctx = Ctx { tier, want_desc: false, active_known: known.clone(), part: pi };
          let ctx_desc = Ctx { tier, want_desc: true, active_known: known, part: pi };
          let mut stats = Stats::default();
          let mut complete = true;
          loop {
            let first = {
              let mut g = next_first.lock().unwrap();
              let f = *g;
              *g += 1;
              f
            };
            if first >= arity0 {
              break;
            }
            let mut od = Odometer::new(depth);
            od.force_first(first as u32);
            loop {
              if count.fetch_add(1, Ordering::Relaxed) >= per_budget {
                complete = false;
                break;
              }
              let want = stats.samples.len() < 3 && stats.evaluations % 1013 == 0;
              let o = run_one(part.run, &mut od, if want { &ctx_desc } else { &ctx });
              stats.note(&o);
              if want && o.nontrivial {
                if let Some(d) = &o.desc {
                  stats.samples.push(d.clone());
                }
              }
              if let Verdict::Violation { sig, detail } = &o.verdict {
                if ctx.known(sig) {
                  stats.excluded_known += 1;
                } else {
                  let picks = od.record().to_vec();
                  let mut fx = Fixed::new(picks.clone());
                  let o2 = run_one(part.run, &mut fx, &ctx_desc);
                  return (
                    stats,
                    Some(Failure { part: pi, picks, sig: sig.clone(), detail: detail.clone(), desc: o2.desc.unwrap_or(J::Null) }),
                    false,
                  );
                }
              }
              if od.truncated {
                complete = false;
              }
              if !od.advance_keep_first() {
                break;
              }
            }
            if count.load(Ordering::Relaxed) >= per_budget {
              break;
            }
          }
          (stats, None, complete)
        })
      })
      .collect();
    hs.into_iter().map(|h| h.join().expect("worker thread panicked")).collect()
  });
  let mut total = Stats::default();
  let mut fail = None;
  let mut complete = true;
  for (s, f, c) in results {
    total.merge(s);
    complete &= c;
    if fail.is_none() {
      fail = f;
    }
  }
  (total, fail, complete)
}

// ------------------------------------------------------------ known findings

#[derive(Clone, Debug)]
pub struct KnownEntry {
  pub property: String,
  pub status: String, // "known" | "fixed"
  pub signature: String,
  pub what: String,
  pub part: usize,
  pub picks: Vec<u32>,
  pub commit: Option<String>,
}

pub fn verif_dir() -> std::path::PathBuf {
  std::env::var("VERIF_DIR").map(Into::into).unwrap_or_else(|_| "/verif".into())
}
/// where evidence and replay files are written (`RXV_OUT_DIR`; default: the verification directory itself).
/// Inputs - known_findings.json, regress/ - are always read from `verif_dir()`.
pub fn out_dir() -> std::path::PathBuf {
  std::env::var("RXV_OUT_DIR").map(Into::into).unwrap_or_else(|_| verif_dir())
}

pub fn load_known() -> Vec<KnownEntry> {
  let p = verif_dir().join("known_findings.json");
  let Ok(txt) = std::fs::read_to_string(&p) else { return vec![] };
  let Ok(j) = serde_json::from_str::<J>(&txt) else {
    println!("INCONCLUSIVE cannot parse {}", p.display());
    std::process::exit(2);
  };
  let mut out = vec![];
  for e in j["findings"].as_array().cloned().unwrap_or_default() {
    out.push(KnownEntry {
      property: e["property"].as_str().unwrap_or("").to_string(),
      status: e["status"].as_str().unwrap_or("known").to_string(),
      signature: e["signature"].as_str().unwrap_or("").to_string(),
      what: e["what"].as_str().unwrap_or("").to_string(),
      part: e["part"].as_u64().unwrap_or(0) as usize,
      picks: e["picks"].as_array().map(|a| a.iter().map(|x| x.as_u64().unwrap_or(0) as u32).collect()).unwrap_or_default(),
      commit: e["commit"].as_str().map(|s| s.to_string()),
    });
  }
  out
}

fn hash_str(s: &str) -> u64 {
  let mut h: u64 = 0xcbf29ce484222325;
  for b in s.bytes() {
    h ^= b as u64;
    h = h.wrapping_mul(0x100000001b3);
  }
  h
}
pub fn hash_of<T: std::hash::Hash>(t: &T) -> u64 {
  use std::hash::Hasher;
  let mut h = std::collections::hash_map::DefaultHasher::new();
  t.hash(&mut h);
  h.finish()
}

fn write_replay(prop: &Prop, f: &Failure) -> String {
  let dir = out_dir().join("replays");
  let _ = std::fs::create_dir_all(&dir);
  let name = format!("{}-{:016x}.json", prop.id, hash_str(&format!("{}{:?}{}", f.sig, f.picks, f.part)));
  let path = dir.join(name);
  let j = json!({
    "property": prop.id, "part": f.part, "part_name": prop.parts[f.part].name, "picks": f.picks,
    "signature": f.sig, "detail": f.detail, "case": f.desc,
  });
  let _ = std::fs::write(&path, serde_json::to_string_pretty(&j).unwrap());
  path.display().to_string()
}

pub fn replay_picks(prop: &Prop, part: usize, picks: &[u32], tier: Tier, known: &[String]) -> Outcome {
  let ctx = Ctx { tier, want_desc: true, active_known: known.to_vec(), part };
  let mut fx = Fixed::new(picks.to_vec());
  run_one(prop.parts[part].run, &mut fx, &ctx)
}

fn write_evidence(prop: &Prop, tier: Tier, seed: u64, st: &Stats, exhaustive: Option<bool>, parts: &[J], wall: f64, violations: u64) {
  let dir = out_dir().join("evidence");
  let _ = std::fs::create_dir_all(&dir);
  let mut cov = json!({
    "evaluations": st.evaluations,
    "distinct_nontrivial": st.nontrivial.len(),
    "rule": prop.rule,
    "samples": st.samples,
    "discarded": st.discards,
    "labels": st.labels.iter().map(|(k, v)| (k.to_string(), json!(v))).collect::<serde_json::Map<_, _>>(),
    "excluded_known": st.excluded_known,
    "notes": st.notes.iter().map(|(k, v)| (k.clone(), json!(v))).collect::<serde_json::Map<_, _>>(),
    "parts": parts,
  });
  if let Some(e) = exhaustive {
    cov["exhaustive"] = json!(e);
  }
  let j = json!({
    "property_id": prop.id,
    "tier": if tier == Tier::Quick { "quick" } else { "thorough" },
    "seed": seed,
    "level": "exploration",
    "coverage": cov,
    "assumptions": prop.assumptions,
    "wall_s": wall,
    "violations": violations,
  });
  let _ = std::fs::write(dir.join(format!("{}.json", prop.id)), serde_json::to_string_pretty(&j).unwrap());
}

/// full check of one property; returns the process exit code
pub fn check(prop: &Prop, tier: Tier, seed: u64) -> i32 {
  let t0 = Instant::now();
  start_watchdog(prop.id);
  let workers: usize = std::env::var("RXV_WORKERS").ok().and_then(|s| s.parse().ok()).unwrap_or(14);
  let scale: f64 = std::env::var("RXV_SCALE").ok().and_then(|s| s.parse().ok()).unwrap_or(1.0);
  let known_all = load_known();
  let mine: Vec<&KnownEntry> = known_all.iter().filter(|k| k.property == prop.id).collect();
  let mut active: Vec<String> = vec![];
  let mut violations: Vec<String> = vec![];

  // 1. known findings: replay; still failing => KNOWN-FINDING line + excluded from the search
  for k in mine.iter().filter(|k| k.status == "known") {
    let o = replay_picks(prop, k.part, &k.picks, tier, &[]);
    if let Verdict::Violation { sig, .. } = &o.verdict {
      if *sig == k.signature {
        println!("KNOWN-FINDING: property={} {} -- {}", prop.id, k.signature, k.what);
        active.push(k.signature.clone());
      } else {
        // the listed replay now fails differently: that is a different violation
        let f = Failure { part: k.part, picks: k.picks.clone(), sig: sig.clone(), detail: "replay of a listed finding fails with a different signature".into(), desc: o.desc.unwrap_or(J::Null) };
        let p = write_replay(prop, &f);
        println!("VIOLATION property={} replay={}", prop.id, p);
        violations.push(sig.clone());
      }
    }
  }
  // 2. fixed findings and saved regression tapes must pass
  for k in mine.iter().filter(|k| k.status == "fixed") {
    let o = replay_picks(prop, k.part, &k.picks, tier, &active);
    if let Verdict::Violation { sig, detail } = &o.verdict {
      if !active.contains(sig) {
        let f = Failure { part: k.part, picks: k.picks.clone(), sig: sig.clone(), detail: format!("regression of a fixed finding ({}): {detail}", k.what), desc: o.desc.unwrap_or(J::Null) };
        let p = write_replay(prop, &f);
        println!("VIOLATION property={} replay={}", prop.id, p);
        violations.push(sig.clone());
      }
    }
  }
  let reg_dir = if std::env::var("RXV_NO_REGRESS").map(|v| !v.is_empty()).unwrap_or(false) { std::path::PathBuf::from("/nonexistent") } else { verif_dir().join("regress").join(prop.id) };
  let mut regress_run = 0;
  if let Ok(rd) = std::fs::read_dir(&reg_dir) {
    let mut files: Vec<_> = rd.flatten().map(|e| e.path()).filter(|p| p.extension().map_or(false, |x| x == "json")).collect();
    files.sort();
    for path in files {
      let Ok(txt) = std::fs::read_to_string(&path) else { continue };
      let Ok(j) = serde_json::from_str::<J>(&txt) else { continue };
      let part = j["part"].as_u64().unwrap_or(0) as usize;
      if part >= prop.parts.len() {
        continue;
      }
      let picks: Vec<u32> = j["picks"].as_array().map(|a| a.iter().map(|x| x.as_u64().unwrap_or(0) as u32).collect()).unwrap_or_default();
      let o = replay_picks(prop, part, &picks, tier, &active);
      regress_run += 1;
      if let Verdict::Violation { sig, detail } = &o.verdict {
        if !active.contains(sig) {
          let f = Failure { part, picks, sig: sig.clone(), detail: format!("regression tape {}: {detail}", path.display()), desc: o.desc.unwrap_or(J::Null) };
          let p = write_replay(prop, &f);
          println!("VIOLATION property={} replay={}", prop.id, p);
          violations.push(sig.clone());
        }
      }
    }
  }

  // 3. generated search
  let mut total = Stats::default();
  let mut parts_json = vec![];
  let mut all_exhaustive: Option<bool> = None;
  for (pi, part) in prop.parts.iter().enumerate() {
    let cases = ((if tier == Tier::Quick { part.quick_cases } else { part.thorough_cases }) as f64 * scale) as u64;
    let tp = Instant::now();
    let mut pj = json!({"name": part.name});
    if cases > 0 {
      let (st, fail) = random_part_chunked(prop, pi, cases, seed, tier, &active, workers);
      pj["random_cases"] = json!(st.evaluations);
      pj["random_distinct_nontrivial"] = json!(st.nontrivial.len());
      total.merge(st);
      if let Some(f) = fail {
        let p = write_replay(prop, &f);
        println!("VIOLATION property={} replay={}", prop.id, p);
        println!("  part={} signature={} detail={}", part.name, f.sig, f.detail);
        violations.push(f.sig);
      }
    }
    if let Some(depth) = part.exhaustive_depth {
      if tier == Tier::Thorough || part.exh_quick {
        let budget = if tier == Tier::Quick { part.exhaustive_budget / 20 } else { part.exhaustive_budget };
        let (st, fail, complete) = exhaustive_part(prop, pi, depth, budget.max(1), tier, &active, workers);
        pj["exhaustive_cases"] = json!(st.evaluations);
        pj["exhaustive_complete"] = json!(complete);
        pj["exhaustive_depth"] = json!(depth);
        all_exhaustive = Some(all_exhaustive.unwrap_or(true) && complete);
        total.merge(st);
        if let Some(f) = fail {
          let p = write_replay(prop, &f);
          println!("VIOLATION property={} replay={}", prop.id, p);
          println!("  part={} signature={} detail={}", part.name, f.sig, f.detail);
          violations.push(f.sig);
        }
      }
    }
    pj["wall_s"] = json!(tp.elapsed().as_secs_f64());
    parts_json.push(pj);
  }
  let exh = if prop.parts.iter().all(|p| p.exhaustive_depth.is_some()) { all_exhaustive } else { all_exhaustive.map(|_| false) };
  parts_json.push(json!({"regression_tapes_replayed": regress_run, "known_findings_active": active}));
  if let Ok(info) = std::env::var("RXV_FUZZ_INFO") {
    if let Ok(j) = serde_json::from_str::<J>(&info) {
      parts_json.push(json!({"name": "libFuzzer campaign (coverage-guided, same generators and oracle in-target)", "result": j}));
    }
  }
  let wall = t0.elapsed().as_secs_f64();
  write_evidence(prop, tier, seed, &total, exh, &parts_json, wall, violations.len() as u64);
  println!(
    "property={} tier={:?} seed={} evaluations={} distinct_nontrivial={} discarded={} excluded_known={} violations={} wall={:.1}s",
    prop.id,
    tier,
    seed,
    total.evaluations,
    total.nontrivial.len(),
    total.discards,
    total.excluded_known,
    violations.len(),
    wall
  );
  if std::env::var("RXV_LABELS").is_ok() {
    for (k, v) in &total.labels {
      println!("  label {k}: {v}");
    }
    for (k, v) in &total.notes {
      println!("  note {k}: {v}");
    }
  }
  if violations.is_empty() {
    0
  } else {
    1
  }
}

/// replay one file; exit 1 + VIOLATION line when it (still) fails
/// debugging aid: pseudo-random tapes (xorshift of the seed) until a case carries `label`; the case is written to
/// <out>/replays/<id>-found.json as resolved picks
pub fn find_label(prop: &Prop, label: &str, part: usize, seed: u64) -> i32 {
  let part = part.min(prop.parts.len() - 1);
  let ctx = Ctx { tier: Tier::Quick, want_desc: true, active_known: vec![], part };
  let mut x: u64 = seed.wrapping_mul(0x9e3779b97f4a7c15) | 1;
  for _ in 0..2_000_000 {
    let words: Vec<u32> = (0..prop.parts[part].tape_len)
      .map(|_| {
        x ^= x << 13;
        x ^= x >> 7;
        x ^= x << 17;
        (x >> 16) as u32
      })
      .collect();
    let mut c = Tape::new(&words);
    let o = run_one(prop.parts[part].run, &mut c, &ctx);
    if o.labels.iter().any(|l| *l == label) {
      let dir = out_dir().join("replays");
      let _ = std::fs::create_dir_all(&dir);
      let p = dir.join(format!("{}-found.json", prop.id));
      let j = serde_json::json!({"property": prop.id, "part": part, "picks": c.record(), "case": o.desc});
      let _ = std::fs::write(&p, serde_json::to_string_pretty(&j).unwrap());
      println!("found: {}", p.display());
      return 0;
    }
  }
  println!("no case with label {label} in 2000000 tapes");
  2
}

pub fn replay_file(prop: &Prop, path: &str) -> i32 {
  let Ok(txt) = std::fs::read_to_string(path) else {
    println!("INCONCLUSIVE cannot read {path}");
    return 2;
  };
  let Ok(j) = serde_json::from_str::<J>(&txt) else {
    println!("INCONCLUSIVE cannot parse {path}");
    return 2;
  };
  let part = j["part"].as_u64().unwrap_or(0) as usize;
  let picks: Vec<u32> = j["picks"].as_array().map(|a| a.iter().map(|x| x.as_u64().unwrap_or(0) as u32).collect()).unwrap_or_default();
  let part = part.min(prop.parts.len() - 1);
  let o = if let Some(words) = j["words"].as_array() {
    // a raw tape (saved by the watchdog): decode it the way the random driver does
    let words: Vec<u32> = words.iter().map(|x| x.as_u64().unwrap_or(0) as u32).collect();
    let mut c = Tape::new(&words);
    let ctx = Ctx { tier: Tier::Quick, want_desc: true, active_known: vec![], part };
    let o = run_one(prop.parts[part].run, &mut c, &ctx);
    println!("resolved picks: {:?}", c.record());
    o
  } else {
    replay_picks(prop, part, &picks, Tier::Quick, &[])
  };
  println!("case: {}", serde_json::to_string_pretty(o.desc.as_ref().unwrap_or(&J::Null)).unwrap());
  match o.verdict {
    Verdict::Violation { sig, detail } => {
      println!("signature: {sig}\ndetail: {detail}");
      println!("VIOLATION property={} replay={}", prop.id, path);
      1
    }
    Verdict::Discard => {
      println!("case is outside the property's domain (discarded)");
      0
    }
    Verdict::Ok => {
      println!("property={} replay passes", prop.id);
      0
    }
  }
}
