#![no_main]
//! coverage-guided driver: the fuzzer's bytes are decoded through the same
//! generators as the proptest / exhaustive drivers (one byte per pick) and the
//! same oracle runs inside the target.  The property is selected with RXV_FUZZ_PROP.
use libfuzzer_sys::fuzz_target;

fuzz_target!(|data: &[u8]| {
  rxv::fuzz::fuzz_one(data);
});
